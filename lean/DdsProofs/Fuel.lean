import DdsProofs.Cone
/-!
# The recursion bound of the model is immaterial

Every recursion of the pipeline model (`analyse`, `indirectFn`, `orderFn`, `runFn`) carries a fuel argument. `*_mono`:
a result that is not the model's own `outOfFuel` error does not change when more fuel is given. Hence `evalStep`, which
uses the number of definitions of the world as fuel, gives the same outcome in a world with more definitions — the
restriction "equally many definitions" of `outside_cone_invisible` can be dropped (`outside_cone_invisible'`).
-/
namespace Dds
open List

abbrev FuelErr {α} : Except DdsErr α := .error .outOfFuel

theorem bind_mono {α β} (x1 x2 : Except DdsErr α) (f : α → Except DdsErr β) (r : Except DdsErr β)
    (hx : ∀ rx, x1 = rx → rx ≠ FuelErr → x2 = rx) (h : (x1 >>= f) = r) (hr : r ≠ FuelErr) : (x2 >>= f) = r := by
  cases h1 : x1 with
  | error e =>
    rw [h1] at h
    have : e ≠ .outOfFuel := by intro he; subst he; exact hr (h ▸ rfl)
    rw [hx _ h1 (by intro hc; cases hc; exact this rfl)]
    exact h
  | ok a =>
    rw [hx _ h1 (by intro hc; cases hc)]
    rw [h1] at h
    exact h

/-! ## The analysis -/

theorem plain_mono {m : Nat} {W : World} {rec1 rec2 : Analyse} {fn : Fn} {isig : Sg} {stack : List String}
    (hrec : ∀ refs stk g ctx r, rec1 refs stk g ctx = r → r ≠ FuelErr → rec2 refs stk g ctx = r)
    (st : VisitSt) (f : String) (args : List AstArg) (kwargs : List (String × AstArg)) (line : Nat)
    (r : Except DdsErr VisitSt)
    (h : visitItem.plain m W rec1 fn isig stack st f args kwargs line = r) (hr : r ≠ FuelErr) :
    visitItem.plain m W rec2 fn isig stack st f args kwargs line = r := by
  unfold visitItem.plain at h ⊢
  cases hs : siteCtx m fn isig st.inters line st.refs st.loads with
  | error e => rw [hs] at h; exact h
  | ok ctx =>
    simp only [hs, ok_bind] at h ⊢
    cases hf : W.find f with
    | none => simpa [hf] using h
    | some g =>
      simp only [hf] at h ⊢
      by_cases hst : f ∈ stack
      · simpa [hst] using h
      · simp only [hst, if_false] at h ⊢
        cases hn : liftA (getArgCtxAst m g.params args kwargs) with
        | error e => rw [hn] at h; exact h
        | ok named =>
          simp only [hn, ok_bind] at h ⊢
          cases h1 : rec1 st.refs (stack ++ [f]) g ⟨named, ctx⟩ with
          | error e =>
            simp only [h1] at h
            have : e ≠ .outOfFuel := by
              intro he; subst he; exact hr (h ▸ rfl)
            rw [hrec _ _ _ _ _ h1 (by intro hc; cases hc; exact this rfl)]
            exact h
          | ok fr =>
            rw [hrec _ _ _ _ _ h1 (by intro hc; cases hc)]
            simpa [h1] using h

theorem visitItem_mono {m : Nat} {W : World} {rec1 rec2 : Analyse} {fn : Fn} {isig : Sg} {stack : List String}
    (hrec : ∀ refs stk g ctx r, rec1 refs stk g ctx = r → r ≠ FuelErr → rec2 refs stk g ctx = r)
    (st : VisitSt) (it : Item) (r : Except DdsErr VisitSt)
    (h : visitItem m W rec1 fn isig stack st it = r) (hr : r ≠ FuelErr) :
    visitItem m W rec2 fn isig stack st it = r := by
  cases it with
  | call f l => simp only [visitItem] at h ⊢; exact plain_mono hrec st f [] [] l r h hr
  | callArgs f a k ra rk l => simp only [visitItem] at h ⊢; exact plain_mono hrec st f a k l r h hr
  | ref f l =>
    simp only [visitItem] at h ⊢
    by_cases hs : f ∈ st.seen
    · simpa [hs] using h
    · simp only [hs, if_false] at h ⊢
      cases hp : visitItem.plain m W rec1 fn isig stack st f [] [] l with
      | error e =>
        rw [hp] at h
        have : e ≠ .outOfFuel := by intro he; subst he; exact hr (h ▸ rfl)
        rw [plain_mono hrec st f [] [] l _ hp (by intro hc; cases hc; exact this rfl)]
        exact h
      | ok t =>
        rw [plain_mono hrec st f [] [] l _ hp (by intro hc; cases hc)]
        rw [hp] at h; exact h
  | keep path f a k ra rk l =>
    simp only [visitItem] at h ⊢
    cases hs : siteCtx m fn isig st.inters l st.refs st.loads with
    | error e => rw [hs] at h; exact h
    | ok ctx =>
      simp only [hs, ok_bind] at h ⊢
      by_cases hp : pathAbsolute path = true
      · simp only [hp, Bool.not_true, Bool.false_eq_true, if_false] at h ⊢
        cases hf : W.find f with
        | none => simpa [hf] using h
        | some g =>
          simp only [hf] at h ⊢
          by_cases hst : f ∈ stack
          · simpa [hst] using h
          · simp only [hst, if_false] at h ⊢
            cases hn : liftA (getArgCtxAst m g.params a k) with
            | error e => rw [hn] at h; exact h
            | ok named =>
              simp only [hn, ok_bind] at h ⊢
              cases h1 : rec1 st.refs (stack ++ [f]) g ⟨named, ctx⟩ with
              | error e =>
                simp only [h1] at h
                have : e ≠ .outOfFuel := by intro he; subst he; exact hr (h ▸ rfl)
                rw [hrec _ _ _ _ _ h1 (by intro hc; cases hc; exact this rfl)]
                exact h
              | ok fr =>
                rw [hrec _ _ _ _ _ h1 (by intro hc; cases hc)]
                simpa [h1] using h
      · simpa [hp] using h
  | load path l => exact h
  | evalCall f l => exact h

theorem visitItems_mono {m : Nat} {W : World} {rec1 rec2 : Analyse} {fn : Fn} {isig : Sg} {stack : List String}
    (hrec : ∀ refs stk g ctx r, rec1 refs stk g ctx = r → r ≠ FuelErr → rec2 refs stk g ctx = r) :
    ∀ (its : List Item) (st : VisitSt) (r : Except DdsErr VisitSt),
      visitItems m W rec1 fn isig stack st its = r → r ≠ FuelErr → visitItems m W rec2 fn isig stack st its = r
  | [], _, _, h, _ => h
  | it :: its, st, r, h, hr => by
    simp only [visitItems] at h ⊢
    cases h1 : visitItem m W rec1 fn isig stack st it with
    | error e =>
      rw [h1] at h
      have : e ≠ .outOfFuel := by intro he; subst he; exact hr (h ▸ rfl)
      rw [visitItem_mono hrec st it _ h1 (by intro hc; cases hc; exact this rfl)]
      exact h
    | ok t =>
      rw [visitItem_mono hrec st it _ h1 (by intro hc; cases hc)]
      rw [h1] at h
      simp only [ok_bind] at h ⊢
      exact visitItems_mono hrec its t r h hr

/-- more fuel does not change a result of the analysis that is not the fuel error -/
theorem analyse_mono {m : Nat} {W : World} : ∀ (n : Nat) (refs : Refs) (stack : List String) (fn : Fn) (ctx : ArgCtx)
    (r : Except DdsErr (FIS × Refs)), analyse m W n refs stack fn ctx = r → r ≠ FuelErr →
    analyse m W (n + 1) refs stack fn ctx = r
  | 0, _, _, _, _, r, h, hr => by simp only [analyse] at h; exact absurd h.symm hr
  | n + 1, refs, stack, fn, ctx, r, h, hr => by
    unfold analyse at h ⊢
    cases h1 : hashVars m fn.vars with
    | error e => rw [h1] at h; exact h
    | ok ev =>
      simp only [h1, ok_bind] at h ⊢
      cases h2 : liftS (buildReturnSig none ctx [] [] fn.exts ev) with
      | error e => rw [h2] at h; exact h
      | ok io =>
        simp only [h2, ok_bind] at h ⊢
        cases h3 : visitItems m W (analyse m W n) fn (io.getD (hJoin [])) stack { refs := refs } fn.items with
        | error e =>
          rw [h3] at h
          have : e ≠ .outOfFuel := by intro he; subst he; exact hr (h ▸ rfl)
          rw [visitItems_mono (fun a b c d x => analyse_mono n a b c d x) fn.items _ _ h3 (by intro hc; cases hc; exact this rfl)]
          exact h
        | ok st =>
          rw [visitItems_mono (fun a b c d x => analyse_mono n a b c d x) fn.items _ _ h3 (by intro hc; cases hc)]
          rw [h3] at h
          exact h

theorem analyse_mono_add {m : Nat} {W : World} (n k : Nat) (refs : Refs) (stack : List String) (fn : Fn) (ctx : ArgCtx)
    (r : Except DdsErr (FIS × Refs)) (h : analyse m W n refs stack fn ctx = r) (hr : r ≠ FuelErr) :
    analyse m W (n + k) refs stack fn ctx = r := by
  induction k with
  | zero => exact h
  | succ k ih => exact analyse_mono (n + k) refs stack fn ctx r ih hr

/-! ## The indirect pre-pass and the load-order check -/

theorem indirect_sub_mono {W : World} {rec1 rec2 : IndRec} {stack : List String}
    (hrec : ∀ stk s g r, rec1 stk s g = r → r ≠ FuelErr → rec2 stk s g = r)
    (st : IndSt) (f : String) (r : Except DdsErr IndSt)
    (h : indirectItems.sub W rec1 stack st f = r) (hr : r ≠ FuelErr) : indirectItems.sub W rec2 stack st f = r := by
  unfold indirectItems.sub at h ⊢
  cases hf : W.find f with
  | none => simpa [hf] using h
  | some g =>
    simp only [hf] at h ⊢
    by_cases hs : f ∈ stack
    · simpa [hs] using h
    · simp only [hs, if_false] at h ⊢
      exact hrec _ _ _ _ h hr

theorem indirectItems_mono {W : World} {rec1 rec2 : IndRec} {stack : List String}
    (hrec : ∀ stk s g r, rec1 stk s g = r → r ≠ FuelErr → rec2 stk s g = r) :
    ∀ (its : List Item) (st : IndSt) (seen : List String) (r : Except DdsErr IndSt),
      indirectItems W rec1 stack st seen its = r → r ≠ FuelErr → indirectItems W rec2 stack st seen its = r
  | [], _, _, _, h, _ => h
  | it :: its, st, seen, r, h, hr => by
    have step : ∀ (f : String) (k : IndSt → IndSt) (seen' : List String),
        (indirectItems.sub W rec1 stack st f >>= fun st' => indirectItems W rec1 stack (k st') seen' its) = r →
        (indirectItems.sub W rec2 stack st f >>= fun st' => indirectItems W rec2 stack (k st') seen' its) = r := by
      intro f k seen' h
      cases h1 : indirectItems.sub W rec1 stack st f with
      | error e =>
        rw [h1] at h
        have : e ≠ .outOfFuel := by intro he; subst he; exact hr (h ▸ rfl)
        rw [indirect_sub_mono hrec st f _ h1 (by intro hc; cases hc; exact this rfl)]
        exact h
      | ok st' =>
        rw [indirect_sub_mono hrec st f _ h1 (by intro hc; cases hc)]
        rw [h1] at h
        simp only [ok_bind] at h ⊢
        exact indirectItems_mono hrec its _ _ r h hr
    cases it with
    | call f l => simp only [indirectItems] at h ⊢; exact step f id _ h
    | callArgs f a k ra rk l => simp only [indirectItems] at h ⊢; exact step f id _ h
    | ref f l =>
      simp only [indirectItems] at h ⊢
      by_cases hs : f ∈ seen
      · simp only [hs, if_true] at h ⊢; exact indirectItems_mono hrec its _ _ r h hr
      · simp only [hs, if_false] at h ⊢; exact step f id _ h
    | keep path f a k ra rk l =>
      simp only [indirectItems] at h ⊢
      by_cases hp : pathAbsolute path = true
      · simp only [hp, Bool.not_true, Bool.false_eq_true, if_false] at h ⊢
        exact step f (fun st' => ({ st'.1 with stores := st'.1.stores ++ [path] }, st'.2)) _ h
      · simpa [hp] using h
    | load path l =>
      simp only [indirectItems] at h ⊢
      by_cases hp : pathAbsolute path = true
      · simp only [hp, Bool.not_true, Bool.false_eq_true, if_false] at h ⊢
        exact indirectItems_mono hrec its _ _ r h hr
      · simpa [hp] using h
    | evalCall f l => exact h

theorem indirectFn_mono {W : World} : ∀ (n : Nat) (stack : List String) (st : IndSt) (fn : Fn) (r : Except DdsErr IndSt),
    indirectFn W n stack st fn = r → r ≠ FuelErr → indirectFn W (n + 1) stack st fn = r
  | 0, _, _, _, r, h, hr => by simp only [indirectFn] at h; exact absurd h.symm hr
  | n + 1, stack, st, fn, r, h, hr => by
    unfold indirectFn at h ⊢
    by_cases hs : fn.name ∈ st.2
    · simpa [hs] using h
    · simp only [hs, if_false] at h ⊢
      exact bind_mono _ _ _ r (fun rx hx hrx => indirectItems_mono (fun a b c x => indirectFn_mono n a b c x) fn.items _ _ rx hx hrx) h hr

theorem orderItems_mono {W : World} {stores : List String} {rec1 rec2 : OrdRec}
    (hrec : ∀ p g r, rec1 p g = r → r ≠ FuelErr → rec2 p g = r) :
    ∀ (its : List Item) (produced : List String) (r : Except DdsErr (List String)),
      orderItems W stores rec1 produced its = r → r ≠ FuelErr → orderItems W stores rec2 produced its = r
  | [], _, _, h, _ => h
  | it :: its, produced, r, h, hr => by
    have step : ∀ (f : String) (k : List String → List String),
        (match W.find f with
          | none => (.error .objectNotFound : Except DdsErr (List String))
          | some g => do let p ← rec1 produced g; orderItems W stores rec1 (k p) its) = r →
        (match W.find f with
          | none => (.error .objectNotFound : Except DdsErr (List String))
          | some g => do let p ← rec2 produced g; orderItems W stores rec2 (k p) its) = r := by
      intro f k h
      cases hf : W.find f with
      | none => simpa [hf] using h
      | some g =>
        simp only [hf] at h ⊢
        cases h1 : rec1 produced g with
        | error e =>
          rw [h1] at h
          have : e ≠ .outOfFuel := by intro he; subst he; exact hr (h ▸ rfl)
          rw [hrec _ _ _ h1 (by intro hc; cases hc; exact this rfl)]
          exact h
        | ok p =>
          rw [hrec _ _ _ h1 (by intro hc; cases hc)]
          rw [h1] at h
          simp only [ok_bind] at h ⊢
          exact orderItems_mono hrec its _ r h hr
    cases it with
    | call f l => simp only [orderItems] at h ⊢; exact step f id h
    | ref f l => simp only [orderItems] at h ⊢; exact step f id h
    | callArgs f a k ra rk l => simp only [orderItems] at h ⊢; exact step f id h
    | keep path f a k ra rk l => simp only [orderItems] at h ⊢; exact step f (fun p => path :: p) h
    | load path l =>
      simp only [orderItems] at h ⊢
      split at h
      · rename_i hc; simp only [hc, if_true]; exact h
      · rename_i hc; simp only [hc, if_false]; exact orderItems_mono hrec its _ r h hr
    | evalCall f l => exact h

theorem orderFn_mono {W : World} (stores : List String) : ∀ (n : Nat) (produced : List String) (fn : Fn)
    (r : Except DdsErr (List String)), orderFn W stores n produced fn = r → r ≠ FuelErr →
    orderFn W stores (n + 1) produced fn = r
  | 0, _, _, r, h, hr => by simp only [orderFn] at h; exact absurd h.symm hr
  | n + 1, produced, fn, r, h, hr => by
    unfold orderFn at h ⊢
    cases h1 : orderItems W stores (orderFn W stores n) produced fn.items with
    | error e =>
      rw [h1] at h
      have : e ≠ .outOfFuel := by intro he; subst he; exact hr (h ▸ rfl)
      rw [orderItems_mono (fun a b x => orderFn_mono stores n a b x) fn.items _ _ h1 (by intro hc; cases hc; exact this rfl)]
      exact h
    | ok p =>
      rw [orderItems_mono (fun a b x => orderFn_mono stores n a b x) fn.items _ _ h1 (by intro hc; cases hc)]
      rw [h1] at h
      exact h

/-! ## Running under dds -/

def XFuel (r : XRes) : Prop := r.1 = .error (.dds .outOfFuel)

theorem keepExec_mono {rq : List (String × Sg)} {rec1 rec2 : RunRec}
    (hrec : ∀ s g e r, rec1 s g e = r → ¬ XFuel r → rec2 s g e = r)
    (st : XSt) (path : String) (g : Fn) (env : Env) (r : XRes)
    (h : keepExec rq rec1 st path g env = r) (hr : ¬ XFuel r) : keepExec rq rec2 st path g env = r := by
  unfold keepExec at h ⊢
  cases hk : aget rq path with
  | none => simpa [hk] using h
  | some key =>
    simp only [hk] at h ⊢
    cases hb : sgGet st.store.blobs key with
    | some v => simpa [hb] using h
    | none =>
      simp only [hb] at h ⊢
      cases h1 : rec1 st g env with
      | mk rv st' =>
        have hne : ¬ XFuel (rv, st') := by
          intro hx
          simp only [XFuel] at hx
          subst hx
          rw [h1] at h
          exact hr (h ▸ rfl)
        rw [hrec _ _ _ _ h1 hne]
        rw [h1] at h
        exact h

theorem runCall_mono {W : World} {rq : List (String × Sg)} {rec1 rec2 : RunRec}
    (hrec : ∀ s g e r, rec1 s g e = r → ¬ XFuel r → rec2 s g e = r)
    (st : XSt) (f : String) (pos : List RVal) (kw : List (String × RVal)) (kp : Option String) (r : XRes)
    (h : runCall W rq rec1 st f pos kw kp = r) (hr : ¬ XFuel r) : runCall W rq rec2 st f pos kw kp = r := by
  unfold runCall at h ⊢
  cases hf : W.find f with
  | none => simpa [hf] using h
  | some g =>
    simp only [hf] at h ⊢
    cases hb : bindRun g.params pos kw 0 with
    | none => simpa [hb] using h
    | some env' =>
      simp only [hb] at h ⊢
      cases kp with
      | some path => exact keepExec_mono hrec st path g env' r h hr
      | none =>
        simp only [callExec] at h ⊢
        cases hp : g.storePath with
        | some p => simp only [hp] at h ⊢; exact keepExec_mono hrec st p g env' r h hr
        | none => simp only [hp] at h ⊢; exact hrec _ _ _ _ h hr

theorem runItemRes_mono {W : World} {rq : List (String × Sg)} {rec1 rec2 : RunRec}
    (hrec : ∀ s g e r, rec1 s g e = r → ¬ XFuel r → rec2 s g e = r)
    (env : Env) (st : XSt) (results : List RVal) (it : Item) (r : XRes)
    (h : runItemRes W rq rec1 env st results it = r) (hr : ¬ XFuel r) : runItemRes W rq rec2 env st results it = r := by
  cases it with
  | call f l => simp only [runItemRes] at h ⊢; exact runCall_mono hrec st f _ _ _ r h hr
  | ref f l => simp only [runItemRes] at h ⊢; exact runCall_mono hrec st f _ _ _ r h hr
  | callArgs f a k ra rk l => simp only [runItemRes] at h ⊢; exact runCall_mono hrec st f _ _ _ r h hr
  | keep path f a k ra rk l => simp only [runItemRes] at h ⊢; exact runCall_mono hrec st f _ _ _ r h hr
  | load path l => exact h
  | evalCall f l => exact h

theorem runItems_mono {W : World} {rq : List (String × Sg)} {rec1 rec2 : RunRec}
    (hrec : ∀ s g e r, rec1 s g e = r → ¬ XFuel r → rec2 s g e = r) (fn : Fn) (env : Env) :
    ∀ (its : List Item) (st : XSt) (results : List RVal) (r : Except XErr (List RVal) × XSt),
      runItems W (some rq) rec1 fn env st results its = r → r.1 ≠ .error (.dds .outOfFuel) →
      runItems W (some rq) rec2 fn env st results its = r
  | [], _, _, _, h, _ => h
  | it :: its, st, results, r, h, hr => by
    rw [runItems_cons] at h ⊢
    cases h1 : runItemRes W rq rec1 env st results it with
    | mk rv st' =>
      have hne : ¬ XFuel (rv, st') := by
        intro hx
        simp only [XFuel] at hx
        subst hx
        rw [h1] at h
        exact hr (h ▸ rfl)
      rw [runItemRes_mono hrec env st results it _ h1 hne]
      rw [h1] at h
      cases rv with
      | error e => exact h
      | ok v => exact runItems_mono hrec fn env its st' _ r h hr

theorem runFn_mono {W : World} {rq : List (String × Sg)} : ∀ (n : Nat) (st : XSt) (fn : Fn) (env : Env) (r : XRes),
    runFn W rq n st fn env = r → ¬ XFuel r → runFn W rq (n + 1) st fn env = r
  | 0, _, _, _, r, h, hr => by simp only [runFn] at h; exact absurd (h ▸ rfl) hr
  | n + 1, st, fn, env, r, h, hr => by
    unfold runFn at h ⊢
    simp only at h ⊢
    cases h1 : runItems W (some rq) (runFn W rq n) fn env { st with log := st.log ++ [fn.name] } [] fn.items with
    | mk rv st' =>
      have hne : rv ≠ .error (.dds .outOfFuel) := by
        intro hx
        subst hx
        rw [h1] at h
        exact hr (h ▸ rfl)
      rw [runItems_mono (fun a b c x => runFn_mono n a b c x) fn env fn.items _ _ _ h1 hne]
      rw [h1] at h
      exact h

/-! ## One evaluation, with the recursion bound made explicit -/

def analysisWithF (m : Nat) (W : World) (fuel : Nat) (rq : Request) (fn : Fn) (named : List (String × Option Sg)) (refs0 : Refs) :
    Except DdsErr (Fn × Env × FIS × List (String × Sg)) :=
  match analyse m W fuel refs0 [] fn ⟨named, none⟩ with
  | .error e => .error e
  | .ok (fis, _) =>
    let fis' := match entryPathOf rq fn with
      | some p => fis.withPath p
      | none => fis
    match allStorePaths [] fis' with
    | .error e => .error e
    | .ok paths =>
    if nonTerminalLeaves (paths.map (fun pk => segsOf pk.1)) ≠ [] then .error .overlappingPath else
    match bindRun fn.params (rq.args.map RVal.py) (rq.kwargs.map (fun kv => (kv.1, RVal.py kv.2))) 0 with
    | none => .error .missingArg
    | some env => .ok (fn, env, fis', paths)

def analysisPhaseF (m : Nat) (W : World) (fuel : Nat) (S : PStore) (rq : Request) :
    Except DdsErr (Fn × Env × FIS × List (String × Sg)) :=
  match W.find rq.fn with
  | none => .error .objectNotFound
  | some fn =>
    if badEntryPath rq fn then .error .pathNotAbsolute else
    match liftA (getArgCtx m fn.params rq.args rq.kwargs) with
    | .error e => .error e
    | .ok named =>
      match indirectFn W fuel [] ({}, []) fn with
      | .error e => .error e
      | .ok (ind, _) =>
        match orderFn W ind.stores fuel [] fn with
        | .error e => .error e
        | .ok _ =>
          match fetchPaths S (loadsToCheck ind) with
          | .error e => .error e
          | .ok refs0 => analysisWithF m W fuel rq fn named refs0

def evalStepF (m : Nat) (W : World) (fuel : Nat) (S : PStore) (rq : Request) : Outcome :=
  match analysisPhaseF m W fuel S rq with
  | .error e => { value := .error (.dds e), log := [], requested := [], store := S }
  | .ok (fn, env, fis, paths) =>
    if Stage.eval ∉ rq.stages then { value := .ok none, log := [], requested := paths, store := S } else
    let st0 : XSt := { store := S }
    let (res, st) : XRes :=
      match sgGet S.blobs fis.retSig with
      | some v => (.ok v, st0)
      | none =>
        match runFn W paths fuel st0 fn env with
        | (.ok v, st) =>
          match fis.storePath with
          | some p => match aget paths p with
            | some key => (.ok v, { st with store := st.store.storeBlob key v })
            | none => (.error (.dds .keyError), st)
          | none => (.ok v, st)
        | (.error e, st) => (.error e, st)
    match res with
    | .error e => { value := .error e, log := st.log, requested := paths, store := st.store }
    | .ok v =>
      let S' := if Stage.pathCommit ∈ rq.stages then st.store.sync paths else st.store
      { value := .ok (some v), log := st.log, requested := paths, store := S' }

theorem evalStep_eq_F (m : Nat) (W : World) (S : PStore) (rq : Request) : evalStep m W S rq = evalStepF m W W.fuel S rq := rfl

theorem analysisPhaseF_mono {m : Nat} {W : World} (n : Nat) (S : PStore) (rq : Request)
    (r : Except DdsErr (Fn × Env × FIS × List (String × Sg)))
    (h : analysisPhaseF m W n S rq = r) (hr : r ≠ FuelErr) : analysisPhaseF m W (n + 1) S rq = r := by
  unfold analysisPhaseF at h ⊢
  cases hf : W.find rq.fn with
  | none => simpa [hf] using h
  | some fn =>
    simp only [hf] at h ⊢
    by_cases hb : badEntryPath rq fn = true
    · simpa [hb] using h
    · simp only [hb, Bool.false_eq_true, if_false] at h ⊢
      cases hn : liftA (getArgCtx m fn.params rq.args rq.kwargs) with
      | error e => rw [hn] at h; exact h
      | ok named =>
        simp only [hn] at h ⊢
        cases hi : indirectFn W n [] ({}, []) fn with
        | error e =>
          rw [hi] at h
          have : e ≠ .outOfFuel := by intro he; subst he; exact hr (h ▸ rfl)
          rw [indirectFn_mono n _ _ _ _ hi (by intro hc; cases hc; exact this rfl)]
          exact h
        | ok ind =>
          rw [indirectFn_mono n _ _ _ _ hi (by intro hc; cases hc)]
          rw [hi] at h
          obtain ⟨ind, seen⟩ := ind
          simp only at h ⊢
          cases ho : orderFn W ind.stores n [] fn with
          | error e =>
            rw [ho] at h
            have : e ≠ .outOfFuel := by intro he; subst he; exact hr (h ▸ rfl)
            rw [orderFn_mono _ n _ _ _ ho (by intro hc; cases hc; exact this rfl)]
            exact h
          | ok p =>
            rw [orderFn_mono _ n _ _ _ ho (by intro hc; cases hc)]
            rw [ho] at h
            simp only at h ⊢
            cases hp : fetchPaths S (loadsToCheck ind) with
            | error e => rw [hp] at h; exact h
            | ok refs0 =>
              simp only [hp] at h ⊢
              unfold analysisWithF at h ⊢
              cases ha : analyse m W n refs0 [] fn ⟨named, none⟩ with
              | error e =>
                rw [ha] at h
                have : e ≠ .outOfFuel := by intro he; subst he; exact hr (h ▸ rfl)
                rw [analyse_mono n _ _ _ _ _ ha (by intro hc; cases hc; exact this rfl)]
                exact h
              | ok fr =>
                rw [analyse_mono n _ _ _ _ _ ha (by intro hc; cases hc)]
                rw [ha] at h
                exact h

theorem evalStepF_mono {m : Nat} {W : World} (n : Nat) (S : PStore) (rq : Request)
    (hv : (evalStepF m W n S rq).value ≠ .error (.dds .outOfFuel)) :
    evalStepF m W (n + 1) S rq = evalStepF m W n S rq := by
  unfold evalStepF at hv ⊢
  cases ha : analysisPhaseF m W n S rq with
  | error e =>
    rw [ha] at hv
    have : e ≠ .outOfFuel := by intro he; subst he; exact hv rfl
    rw [analysisPhaseF_mono n S rq _ ha (by intro hc; cases hc; exact this rfl)]
  | ok res =>
    rw [analysisPhaseF_mono n S rq _ ha (by intro hc; cases hc)]
    rw [ha] at hv
    obtain ⟨fn, env, fis, paths⟩ := res
    simp only at hv ⊢
    by_cases hs : Stage.eval ∈ rq.stages
    · simp only [hs, not_true_eq_false, if_false] at hv ⊢
      cases hb : sgGet S.blobs fis.retSig with
      | some v => rfl
      | none =>
        simp only [hb] at hv ⊢
        cases hr : runFn W paths n { store := S } fn env with
        | mk rv st =>
          have hne : ¬ XFuel (rv, st) := by
            intro hx
            simp only [XFuel] at hx
            subst hx
            rw [hr] at hv
            exact hv rfl
          rw [runFn_mono n _ _ _ _ hr hne]
    · simp only [hs, not_false_eq_true, if_true]

theorem evalStepF_mono_add {m : Nat} {W : World} (n k : Nat) (S : PStore) (rq : Request)
    (hv : (evalStepF m W n S rq).value ≠ .error (.dds .outOfFuel)) :
    evalStepF m W (n + k) S rq = evalStepF m W n S rq := by
  induction k with
  | zero => rfl
  | succ k ih =>
    have : evalStepF m W (n + k + 1) S rq = evalStepF m W (n + k) S rq := evalStepF_mono (n + k) S rq (by rw [ih]; exact hv)
    rw [← ih, ← this]; rfl

theorem analysisPhaseF_find {m : Nat} {W : World} {fuel : Nat} {S : PStore} {rq : Request} {fn : Fn} {env : Env} {fis : FIS}
    {paths : List (String × Sg)} (h : analysisPhaseF m W fuel S rq = .ok (fn, env, fis, paths)) : W.find rq.fn = some fn := by
  unfold analysisPhaseF at h
  cases hf : W.find rq.fn with
  | none => simp [hf] at h
  | some fn0 =>
    simp only [hf] at h
    by_cases hb : badEntryPath rq fn0 = true
    · simp [hb] at h
    · simp only [hb, Bool.false_eq_true, if_false] at h
      cases hn : liftA (getArgCtx m fn0.params rq.args rq.kwargs) with
      | error e => simp [hn] at h
      | ok named =>
        simp only [hn] at h
        cases hi : indirectFn W fuel [] ({}, []) fn0 with
        | error e => simp [hi] at h
        | ok ind =>
          obtain ⟨ind, _⟩ := ind
          simp only [hi] at h
          cases ho : orderFn W ind.stores fuel [] fn0 with
          | error e => simp [ho] at h
          | ok _ =>
            simp only [ho] at h
            cases hp : fetchPaths S (loadsToCheck ind) with
            | error e => simp [hp] at h
            | ok refs0 =>
              simp only [hp] at h
              unfold analysisWithF at h
              cases ha : analyse m W fuel refs0 [] fn0 ⟨named, none⟩ with
              | error e => simp [ha] at h
              | ok fr =>
                obtain ⟨fis0, r⟩ := fr
                simp only [ha] at h
                split at h
                · simp at h
                · split at h
                  · cases h
                  · cases hbd : bindRun fn0.params (rq.args.map RVal.py) (rq.kwargs.map (fun kv => (kv.1, RVal.py kv.2))) 0 with
                    | none => simp [hbd] at h
                    | some env0 =>
                      simp only [hbd, Except.ok.injEq, Prod.mk.injEq] at h
                      rw [h.1]

theorem analysisPhaseF_congr {m : Nat} {W1 W2 : World} {cone : List String} (hag : AgreeOn W1 W2 cone)
    (hcl : ConeClosed W1 cone) (fuel : Nat) (S : PStore) (rq : Request) (hrq : rq.fn ∈ cone) :
    analysisPhaseF m W1 fuel S rq = analysisPhaseF m W2 fuel S rq := by
  unfold analysisPhaseF
  rw [← hag rq.fn hrq]
  cases hf : W1.find rq.fn with
  | none => rfl
  | some fn =>
    have hfn := hcl rq.fn hrq fn hf
    simp only
    rw [indirectFn_congr hag hcl fuel [] ({}, []) fn hfn]
    have ho : ∀ stores, orderFn W1 stores fuel [] fn = orderFn W2 stores fuel [] fn :=
      fun stores => orderFn_congr hag hcl stores fuel [] fn hfn
    simp only [ho]
    have ha : ∀ named refs0, analysisWithF m W1 fuel rq fn named refs0 = analysisWithF m W2 fuel rq fn named refs0 := by
      intro named refs0
      unfold analysisWithF
      rw [analyse_congr hag hcl fuel refs0 [] fn ⟨named, none⟩ hfn]
    simp only [ha]

theorem evalStepF_congr {m : Nat} {W1 W2 : World} {cone : List String} (hag : AgreeOn W1 W2 cone)
    (hcl : ConeClosed W1 cone) (hx : W1.extVersion = W2.extVersion) (fuel : Nat)
    (S : PStore) (rq : Request) (hrq : rq.fn ∈ cone) :
    evalStepF m W1 fuel S rq = evalStepF m W2 fuel S rq := by
  unfold evalStepF
  rw [← analysisPhaseF_congr hag hcl fuel S rq hrq]
  cases ha : analysisPhaseF m W1 fuel S rq with
  | error e => rfl
  | ok r =>
    obtain ⟨fn, env, fis, paths⟩ := r
    have hfind : W1.find rq.fn = some fn := analysisPhaseF_find ha
    have hfn := hcl rq.fn hrq fn hfind
    simp only [runFn_congr hag hcl hx paths fuel _ fn env hfn]

/-- **edits outside the cone are invisible, whatever the number of definitions**: if the second version has at least as many
definitions and the evaluation of the first does not hit the recursion bound of the model, the outcome is the same -/
theorem evalStep_congr_le {m : Nat} {W1 W2 : World} {cone : List String} (hag : AgreeOn W1 W2 cone)
    (hcl : ConeClosed W1 cone) (hx : W1.extVersion = W2.extVersion) (hle : W1.funs.length ≤ W2.funs.length)
    (S : PStore) (rq : Request) (hrq : rq.fn ∈ cone)
    (hv : (evalStep m W1 S rq).value ≠ .error (.dds .outOfFuel)) :
    evalStep m W1 S rq = evalStep m W2 S rq := by
  rw [evalStep_eq_F, evalStep_eq_F] at *
  obtain ⟨k, hk⟩ := Nat.exists_eq_add_of_le hle
  have hf : W2.fuel = W1.fuel + k := by simp only [World.fuel, hk]; omega
  rw [hf, ← evalStepF_congr hag hcl hx (W1.fuel + k) S rq hrq, evalStepF_mono_add W1.fuel k S rq hv]

end Dds
