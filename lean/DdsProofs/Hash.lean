import DdsModel.PyVal
/-! Lemmas for C05: `dds_hash` factors through `canonKF`, and the canonical hash is injective. -/
namespace Dds

theorem utf8_inj {a b : String} (h : utf8 a = utf8 b) : a = b := by
  unfold utf8 at h
  have h1 : a.toUTF8 = b.toUTF8 := by
    apply ByteArray.ext; exact Array.toList_inj.mp h
  cases a; cases b; simp_all [String.toUTF8]

theorem litPart_inj {a b : List UInt8} (h : litPart a = litPart b) : a = b := by
  unfold litPart at h
  by_cases ha : a = [] <;> by_cases hb : b = [] <;> simp_all

theorem joinSg_inj : ∀ (a b : List Sg), joinSg a = joinSg b → a = b := by
  intro a
  induction a using joinSg.induct with
  | case1 => intro b h; cases b with
    | nil => rfl
    | cons y ys => cases ys <;> simp [joinSg] at h
  | case2 d => intro b h; cases b with
    | nil => simp [joinSg] at h
    | cons y ys => cases ys with
      | nil => simpa [joinSg] using h
      | cons z zs => simp [joinSg] at h
  | case3 d e ds ih => intro b h; cases b with
    | nil => simp [joinSg] at h
    | cons y ys => cases ys with
      | nil => simp [joinSg] at h
      | cons z zs =>
        simp only [joinSg, List.cons.injEq, Part.sg.injEq, true_and] at h
        obtain ⟨h1, h2⟩ := h
        rw [h1, ih _ h2]

theorem joinSg_nil_iff (l : List Sg) : joinSg l = [] ↔ l = [] := by
  cases l with
  | nil => simp [joinSg]
  | cons a t => cases t <;> simp [joinSg]

theorem joinSg_ne_litPart (l : List Sg) (hl : l ≠ []) (bs : List UInt8) : joinSg l ≠ litPart bs := by
  cases l with
  | nil => exact absurd rfl hl
  | cons a t =>
    unfold litPart
    cases t <;> by_cases hb : bs = [] <;> simp [joinSg, hb]

theorem hashCL_nil_iff (l : List CVal) : hashCL l = [] ↔ l = [] := by
  cases l <;> simp [hashCL]

mutual
theorem hashC_inj : ∀ (a b : CVal), a.wf → b.wf → hashC a = hashC b → a = b
  | .atom x, .atom y, _, _, h => by
      simp only [hashC, hBytes, Sg.H.injEq] at h
      rw [litPart_inj h]
  | .atom x, .seq ys, _, hb, h => by
      simp only [hashC, hBytes, hJoin, Sg.H.injEq] at h
      have : hashCL ys ≠ [] := fun e => hb.1 ((hashCL_nil_iff _).mp e)
      exact absurd h.symm (joinSg_ne_litPart _ this _)
  | .seq xs, .atom y, ha, _, h => by
      simp only [hashC, hBytes, hJoin, Sg.H.injEq] at h
      have : hashCL xs ≠ [] := fun e => ha.1 ((hashCL_nil_iff _).mp e)
      exact absurd h (joinSg_ne_litPart _ this _)
  | .seq xs, .seq ys, ha, hb, h => by
      simp only [hashC, hJoin, Sg.H.injEq] at h
      rw [hashCL_inj xs ys ha.2 hb.2 (joinSg_inj _ _ h)]
theorem hashCL_inj : ∀ (a b : List CVal), CVal.wfL a → CVal.wfL b → hashCL a = hashCL b → a = b
  | [], [], _, _, _ => rfl
  | [], _ :: _, _, _, h => by simp [hashCL] at h
  | _ :: _, [], _, _, h => by simp [hashCL] at h
  | x :: xs, y :: ys, ha, hb, h => by
      simp only [hashCL, List.cons.injEq] at h
      rw [hashC_inj x y ha.1 hb.1 h.1, hashCL_inj xs ys ha.2 hb.2 h.2]
end

theorem mkSeq_wf (xs : List CVal) (h : CVal.wfL xs) : (mkSeq xs).wf := by
  unfold mkSeq
  cases xs with
  | nil => simp [CVal.wf]
  | cons x xs => simp [CVal.wf]; exact h

theorem intAtom_wf (i : Int) : (intAtom i).wf := by
  unfold intAtom; split <;> simp [CVal.wf]

mutual
theorem canonKF_wf : ∀ v : PyVal, (canonKF v).wf
  | .none => by simp [canonKF, CVal.wf]
  | .str _ => by simp [canonKF, CVal.wf]
  | .float _ => by simp [canonKF, CVal.wf]
  | .bool _ => by simp only [canonKF]; exact intAtom_wf _
  | .int _ => by simp only [canonKF]; exact intAtom_wf _
  | .cpath _ => by simp [canonKF, CVal.wf]
  | .list xs => by simp only [canonKF]; exact mkSeq_wf _ (canonKFL_wf xs)
  | .tuple xs => by simp only [canonKF]; exact mkSeq_wf _ (canonKFL_wf xs)
  | .ppath _ => by simp [canonKF, CVal.wf]
  | .odict kvs => by simp only [canonKF]; exact mkSeq_wf _ (canonKFKV_wf kvs)
  | .dict kvs => by simp only [canonKF]; exact mkSeq_wf _ (canonKFKV_wf kvs)
  | .dc fs => by simp only [canonKF]; exact mkSeq_wf _ (canonKFF_wf fs)
  | .temporal _ => by simp [canonKF, CVal.wf]
  | .unsupported _ => by simp [canonKF, CVal.wf]
theorem canonKFL_wf : ∀ xs : List PyVal, CVal.wfL (canonKFL xs)
  | [] => by simp [canonKFL, CVal.wfL]
  | x :: xs => by simp only [canonKFL, CVal.wfL]; exact ⟨canonKF_wf x, canonKFL_wf xs⟩
theorem canonKFKV_wf : ∀ xs : List (PyVal × PyVal), CVal.wfL (canonKFKV xs)
  | [] => by simp [canonKFKV, CVal.wfL]
  | (k, v) :: xs => by
      simp only [canonKFKV, CVal.wfL, CVal.wf]
      exact ⟨⟨by simp, canonKF_wf k, canonKF_wf v, trivial⟩, canonKFKV_wf xs⟩
theorem canonKFF_wf : ∀ xs : List (String × PyVal), CVal.wfL (canonKFF xs)
  | [] => by simp [canonKFF, CVal.wfL]
  | (n, v) :: xs => by
      simp only [canonKFF, CVal.wfL, CVal.wf]
      exact ⟨⟨by simp, trivial, ⟨by simp, canonKF_wf v, trivial⟩, trivial⟩, canonKFF_wf xs⟩
end

theorem hashC_mkSeq (xs : List CVal) : hashC (mkSeq xs) = hJoin (hashCL xs) := by
  unfold mkSeq
  cases xs with
  | nil => simp [hashC, hBytes, hJoin, hashCL, joinSg, litPart]
  | cons x xs => simp [hashC]

theorem hashInt_eq (i : Int) (h : Sg) (e : hashInt i = .ok h) : h = hashC (intAtom i) := by
  unfold hashInt at e; unfold intAtom
  split at e <;> simp_all [hashC, hStr, hBytes] <;> exact e.symm

theorem bind_ok {α β ε} {x : Except ε α} {f : α → Except ε β} {b : β}
    (h : (x >>= f) = .ok b) : ∃ a, x = .ok a ∧ f a = .ok b := by
  cases x with
  | error e => simp [bind, Except.bind] at h
  | ok a => exact ⟨a, rfl, by simpa [bind, Except.bind] using h⟩

mutual
theorem ddsHash_eq_hashC (m : Nat) : ∀ (v : PyVal) (h : Sg), ddsHash m v = .ok h → h = hashC (canonKF v)
  | .none, h, e => by simp [ddsHash] at e; simp [canonKF, hashC, ← e, hStr, hBytes]
  | .str s, h, e => by simp [ddsHash] at e; simp [canonKF, hashC, ← e, hStr, hBytes]
  | .float b, h, e => by simp [ddsHash] at e; simp [canonKF, hashC, ← e]
  | .bool b, h, e => by simp only [ddsHash] at e; simp only [canonKF]; exact hashInt_eq _ _ e
  | .int i, h, e => by simp only [ddsHash] at e; simp only [canonKF]; exact hashInt_eq _ _ e
  | .cpath r, h, e => by simp [ddsHash] at e; simp [canonKF, hashC, ← e, hStr, hBytes]
  | .list xs, h, e => by
      simp only [ddsHash] at e
      obtain ⟨_, _, e⟩ := bind_ok e
      obtain ⟨hs, e1, e⟩ := bind_ok e
      simp only [pure, Except.pure, Except.ok.injEq] at e
      simp only [canonKF, hashC_mkSeq, ← e, ddsHashL_eq m xs hs e1]
  | .tuple xs, h, e => by
      simp only [ddsHash] at e
      obtain ⟨_, _, e⟩ := bind_ok e
      obtain ⟨hs, e1, e⟩ := bind_ok e
      simp only [pure, Except.pure, Except.ok.injEq] at e
      simp only [canonKF, hashC_mkSeq, ← e, ddsHashL_eq m xs hs e1]
  | .ppath s, h, e => by simp [ddsHash] at e; simp [canonKF, hashC, ← e, hStr, hBytes]
  | .odict kvs, h, e => by
      simp only [ddsHash] at e
      obtain ⟨_, _, e⟩ := bind_ok e
      obtain ⟨hs, e1, e⟩ := bind_ok e
      simp only [pure, Except.pure, Except.ok.injEq] at e
      simp only [canonKF, hashC_mkSeq, ← e, ddsHashKV_eq m kvs hs e1]
  | .dict kvs, h, e => by
      simp only [ddsHash] at e
      obtain ⟨_, _, e⟩ := bind_ok e
      obtain ⟨hs, e1, e⟩ := bind_ok e
      simp only [pure, Except.pure, Except.ok.injEq] at e
      simp only [canonKF, hashC_mkSeq, ← e, ddsHashKV_eq m kvs hs e1]
  | .dc fs, h, e => by
      simp only [ddsHash] at e
      obtain ⟨_, _, e⟩ := bind_ok e
      obtain ⟨hs, e1, e⟩ := bind_ok e
      simp only [pure, Except.pure, Except.ok.injEq] at e
      simp only [canonKF, hashC_mkSeq, ← e, ddsHashF_eq m fs hs e1]
  | .temporal r, h, e => by simp [ddsHash] at e; simp [canonKF, hashC, ← e, hStr, hBytes]
  | .unsupported _, h, e => by simp [ddsHash] at e
theorem ddsHashL_eq (m : Nat) : ∀ (xs : List PyVal) (hs : List Sg), ddsHashL m xs = .ok hs → hs = hashCL (canonKFL xs)
  | [], hs, e => by simp [ddsHashL] at e; simp [canonKFL, hashCL, ← e]
  | x :: xs, hs, e => by
      simp only [ddsHashL] at e
      obtain ⟨h, e1, e⟩ := bind_ok e
      obtain ⟨hs', e2, e⟩ := bind_ok e
      simp only [pure, Except.pure, Except.ok.injEq] at e
      simp only [canonKFL, hashCL, ← e, ddsHash_eq_hashC m x h e1, ddsHashL_eq m xs hs' e2]
theorem ddsHashKV_eq (m : Nat) : ∀ (xs : List (PyVal × PyVal)) (hs : List Sg), ddsHashKV m xs = .ok hs → hs = hashCL (canonKFKV xs)
  | [], hs, e => by simp [ddsHashKV] at e; simp [canonKFKV, hashCL, ← e]
  | (k, v) :: xs, hs, e => by
      simp only [ddsHashKV] at e
      obtain ⟨hk, e1, e⟩ := bind_ok e
      obtain ⟨hv, e2, e⟩ := bind_ok e
      obtain ⟨hs', e3, e⟩ := bind_ok e
      simp only [pure, Except.pure, Except.ok.injEq] at e
      simp only [canonKFKV, hashCL, hashC, hJoin, joinSg, pairSg, ← e, ddsHash_eq_hashC m k hk e1,
        ddsHash_eq_hashC m v hv e2, ddsHashKV_eq m xs hs' e3]
theorem ddsHashF_eq (m : Nat) : ∀ (xs : List (String × PyVal)) (hs : List Sg), ddsHashF m xs = .ok hs → hs = hashCL (canonKFF xs)
  | [], hs, e => by simp [ddsHashF] at e; simp [canonKFF, hashCL, ← e]
  | (n, v) :: xs, hs, e => by
      simp only [ddsHashF] at e
      obtain ⟨hv, e1, e⟩ := bind_ok e
      obtain ⟨hs', e2, e⟩ := bind_ok e
      simp only [pure, Except.pure, Except.ok.injEq] at e
      simp only [canonKFF, hashCL, hashC, hJoin, joinSg, pairSg, hSg, hStr, hBytes, ← e,
        ddsHash_eq_hashC m v hv e1, ddsHashF_eq m xs hs' e2]
end

/-- no low-level error, at any depth -/
theorem hashInt_coded (i : Int) : hashInt i ≠ .error .lowLevel := by
  unfold hashInt; split <;> simp

theorem bind_err {α β ε} {x : Except ε α} {f : α → Except ε β} {e : ε}
    (h : (x >>= f) = .error e) : x = .error e ∨ ∃ a, x = .ok a ∧ f a = .error e := by
  cases x with
  | error e' => left; simpa [bind, Except.bind] using h
  | ok a => right; exact ⟨a, rfl, by simpa [bind, Except.bind] using h⟩

theorem checkLen_coded (m n : Nat) : checkLen m n ≠ .error .lowLevel := by
  unfold checkLen; split <;> simp

end Dds

namespace Dds

mutual
theorem ddsHash_err (m : Nat) : ∀ (v : PyVal) (e : HashErr), ddsHash m v = .error e → e ≠ .lowLevel
  | .none, e, h => by simp [ddsHash] at h
  | .str _, e, h => by simp [ddsHash] at h
  | .float _, e, h => by simp [ddsHash] at h
  | .bool _, e, h => by simp only [ddsHash] at h; intro he; subst he; exact hashInt_coded _ h
  | .int _, e, h => by simp only [ddsHash] at h; intro he; subst he; exact hashInt_coded _ h
  | .cpath _, e, h => by simp [ddsHash] at h
  | .ppath _, e, h => by simp [ddsHash] at h
  | .temporal _, e, h => by simp [ddsHash] at h
  | .unsupported _, e, h => by simp [ddsHash] at h; subst h; simp
  | .list xs, e, h => by
      simp only [ddsHash] at h
      rcases bind_err h with h | ⟨_, _, h⟩
      · intro he; subst he; exact checkLen_coded _ _ h
      · rcases bind_err h with h | ⟨_, _, h⟩
        · exact ddsHashL_err m xs e h
        · simp [pure, Except.pure] at h
  | .tuple xs, e, h => by
      simp only [ddsHash] at h
      rcases bind_err h with h | ⟨_, _, h⟩
      · intro he; subst he; exact checkLen_coded _ _ h
      · rcases bind_err h with h | ⟨_, _, h⟩
        · exact ddsHashL_err m xs e h
        · simp [pure, Except.pure] at h
  | .dict xs, e, h => by
      simp only [ddsHash] at h
      rcases bind_err h with h | ⟨_, _, h⟩
      · intro he; subst he; exact checkLen_coded _ _ h
      · rcases bind_err h with h | ⟨_, _, h⟩
        · exact ddsHashKV_err m xs e h
        · simp [pure, Except.pure] at h
  | .odict xs, e, h => by
      simp only [ddsHash] at h
      rcases bind_err h with h | ⟨_, _, h⟩
      · intro he; subst he; exact checkLen_coded _ _ h
      · rcases bind_err h with h | ⟨_, _, h⟩
        · exact ddsHashKV_err m xs e h
        · simp [pure, Except.pure] at h
  | .dc xs, e, h => by
      simp only [ddsHash] at h
      rcases bind_err h with h | ⟨_, _, h⟩
      · intro he; subst he; exact checkLen_coded _ _ h
      · rcases bind_err h with h | ⟨_, _, h⟩
        · exact ddsHashF_err m xs e h
        · simp [pure, Except.pure] at h
theorem ddsHashL_err (m : Nat) : ∀ (xs : List PyVal) (e : HashErr), ddsHashL m xs = .error e → e ≠ .lowLevel
  | [], e, h => by simp [ddsHashL] at h
  | x :: xs, e, h => by
      simp only [ddsHashL] at h
      rcases bind_err h with h | ⟨_, _, h⟩
      · exact ddsHash_err m x e h
      · rcases bind_err h with h | ⟨_, _, h⟩
        · exact ddsHashL_err m xs e h
        · simp [pure, Except.pure] at h
theorem ddsHashKV_err (m : Nat) : ∀ (xs : List (PyVal × PyVal)) (e : HashErr), ddsHashKV m xs = .error e → e ≠ .lowLevel
  | [], e, h => by simp [ddsHashKV] at h
  | (k, v) :: xs, e, h => by
      simp only [ddsHashKV] at h
      rcases bind_err h with h | ⟨_, _, h⟩
      · exact ddsHash_err m k e h
      · rcases bind_err h with h | ⟨_, _, h⟩
        · exact ddsHash_err m v e h
        · rcases bind_err h with h | ⟨_, _, h⟩
          · exact ddsHashKV_err m xs e h
          · simp [pure, Except.pure] at h
theorem ddsHashF_err (m : Nat) : ∀ (xs : List (String × PyVal)) (e : HashErr), ddsHashF m xs = .error e → e ≠ .lowLevel
  | [], e, h => by simp [ddsHashF] at h
  | (n, v) :: xs, e, h => by
      simp only [ddsHashF] at h
      rcases bind_err h with h | ⟨_, _, h⟩
      · exact ddsHash_err m v e h
      · rcases bind_err h with h | ⟨_, _, h⟩
        · exact ddsHashF_err m xs e h
        · simp [pure, Except.pure] at h
end

theorem ddsHash_coded (m : Nat) (v : PyVal) : ddsHash m v ≠ .error .lowLevel :=
  fun h => ddsHash_err m v _ h rfl

/-! ### packed numbers -/
def decodeBE : List UInt8 → Nat
  | [] => 0
  | b :: bs => b.toNat * 256 ^ bs.length + decodeBE bs

theorem beBytes_length (k n : Nat) : (beBytes k n).length = k := by
  induction k generalizing n with
  | zero => simp [beBytes]
  | succ k ih => simp [beBytes, ih]

theorem decodeBE_append_single (xs : List UInt8) (b : UInt8) :
    decodeBE (xs ++ [b]) = decodeBE xs * 256 + b.toNat := by
  induction xs with
  | nil => simp [decodeBE]
  | cons x xs ih =>
    simp only [List.cons_append, decodeBE, ih, List.length_append, List.length_cons, List.length_nil]
    rw [Nat.pow_succ, Nat.add_mul, Nat.mul_assoc]
    omega

theorem decodeBE_beBytes (k n : Nat) : decodeBE (beBytes k n) = n % 256 ^ k := by
  induction k generalizing n with
  | zero => simp [beBytes, decodeBE, Nat.mod_one]
  | succ k ih =>
    simp only [beBytes, decodeBE_append_single, ih]
    have : (UInt8.ofNat (n % 256)).toNat = n % 256 := by simp
    rw [this, Nat.pow_succ, Nat.mul_comm (256 ^ k) 256, Nat.mod_mul]
    omega

theorem beBytes_inj (k a b : Nat) (ha : a < 256 ^ k) (hb : b < 256 ^ k) (h : beBytes k a = beBytes k b) : a = b := by
  have := congrArg decodeBE h
  rwa [decodeBE_beBytes, decodeBE_beBytes, Nat.mod_eq_of_lt ha, Nat.mod_eq_of_lt hb] at this

theorem pack4_inj (i j : Int) (hi : inInt32 i = true) (hj : inInt32 j = true) (h : pack4 i = pack4 j) : i = j := by
  unfold inInt32 at hi hj
  simp only [Bool.and_eq_true, decide_eq_true_eq] at hi hj
  unfold pack4 at h
  have h1 := beBytes_inj 4 _ _ (by omega) (by omega) h
  omega

theorem pack8_inj (x y : UInt64) (h : pack8 x = pack8 y) : x = y := by
  unfold pack8 at h
  have hx := x.toNat_lt; have hy := y.toNat_lt
  have h1 := beBytes_inj 8 _ _ (by omega) (by omega) h
  exact UInt64.toNat_inj.mp h1

theorem ddsHash_float_inj (m : Nat) (x y : UInt64) (h : ddsHash m (.float x) = ddsHash m (.float y)) : x = y := by
  simp only [ddsHash, hBytes, Except.ok.injEq, Sg.H.injEq] at h
  exact pack8_inj _ _ (litPart_inj h)

theorem ddsHash_int_inj (m : Nat) (i j : Int) (hi : inInt32 i = true) (hj : inInt32 j = true)
    (h : ddsHash m (.int i) = ddsHash m (.int j)) : i = j := by
  simp only [ddsHash, hashInt, hi, hj, if_true, hBytes, Except.ok.injEq, Sg.H.injEq] at h
  exact pack4_inj _ _ hi hj (litPart_inj h)

def hexVal (c : Char) : Nat := if c.toNat ≥ 97 then c.toNat - 87 else c.toNat - 48
theorem hexVal_digitChar (d : Nat) (h : d < 16) : hexVal d.digitChar = d := by
  have : d = 0 ∨ d = 1 ∨ d = 2 ∨ d = 3 ∨ d = 4 ∨ d = 5 ∨ d = 6 ∨ d = 7 ∨ d = 8 ∨ d = 9 ∨ d = 10 ∨ d = 11 ∨ d = 12 ∨ d = 13 ∨ d = 14 ∨ d = 15 := by omega
  rcases this with h|h|h|h|h|h|h|h|h|h|h|h|h|h|h|h <;> subst h <;> decide
def decodeHex (cs : List Char) : Nat := cs.foldl (fun acc c => acc * 16 + hexVal c) 0
theorem decodeHex_toDigits (n : Nat) : decodeHex (Nat.toDigits 16 n) = n := by
  induction n using Nat.strongRecOn with
  | _ n ih =>
    rw [Nat.toDigits_eq_if (by decide)]
    split
    · simp [decodeHex, hexVal_digitChar _ ‹_›]
    · rename_i h
      have := ih (n / 16) (by omega)
      simp only [decodeHex, List.foldl_append, List.foldl_cons, List.foldl_nil] at this ⊢
      rw [this, hexVal_digitChar _ (Nat.mod_lt _ (by decide))]
      omega
theorem toDigits16_inj (a b : Nat) (h : Nat.toDigits 16 a = Nat.toDigits 16 b) : a = b := by
  have := congrArg decodeHex h
  rwa [decodeHex_toDigits, decodeHex_toDigits] at this
theorem intRepr_inj (i j : Int) (h : intRepr i = intRepr j) : i = j := by
  unfold intRepr at h
  by_cases hi : i < 0 <;> by_cases hj : j < 0 <;> simp only [hi, hj, if_true, if_false] at h
  · have := toDigits16_inj _ _ (String.ofList_injective ((String.append_right_inj _).mp h)); omega
  · have := congrArg String.toList h; simp at this
  · have := congrArg String.toList h; simp at this
  · have := toDigits16_inj _ _ (String.ofList_injective ((String.append_right_inj _).mp h)); omega

theorem ddsHash_bigint_inj (m : Nat) (i j : Int) (hi : inInt32 i = false) (hj : inInt32 j = false)
    (h : ddsHash m (.int i) = ddsHash m (.int j)) : i = j := by
  simp only [ddsHash, hashInt, hi, hj, hStr, Bool.false_eq_true, if_false, Except.ok.injEq, Sg.H.injEq] at h
  have := utf8_inj (litPart_inj h)
  exact intRepr_inj _ _ ((String.append_right_inj _).mp this)

theorem utf8_append (a b : String) : utf8 (a ++ b) = utf8 a ++ utf8 b := by
  simp [utf8, String.toUTF8]
theorem pack4_length (i : Int) : (pack4 i).length = 4 := beBytes_length _ _
theorem ddsHash_int_bigint_ne (m : Nat) (i j : Int) (hi : inInt32 i = true) (hj : inInt32 j = false) :
    ddsHash m (.int i) ≠ ddsHash m (.int j) := by
  simp only [ddsHash, hashInt, hi, hj, hStr, hBytes, ne_eq, Bool.false_eq_true, if_false, if_true, Except.ok.injEq, Sg.H.injEq]
  intro h
  have h2 := congrArg List.length (litPart_inj h)
  rw [pack4_length, utf8_append] at h2
  have : (utf8 "__DDS_INT__").length = 11 := by decide +kernel
  simp [this] at h2
  omega

end Dds
