import DdsProofs.Closure
/-!
# Histories of evaluations: the store, and what plain execution has kept

The state of a history (`HState`) is the store together with the values plain execution has kept at every path. The
invariant `HInv` says the store is sound (every blob is the plain value of every call with its signature), closed under
kept sub-calls (real stores) or without any committed path (noop stores), and that every committed path resolves to a
blob which is exactly the value plain execution has kept at the path (`PathsKept`).

`hinv_step`: one evaluation of any version of the code keeps the invariant, provided the evaluation does not itself
produce the paths it loads (`ExternalLoads`: loads resolve through the store, to paths committed by earlier evaluations).
`hinv_history`: hence every history from an empty store. `history_value`: after any such history an evaluation returns
what plain execution returns from the values kept so far — in particular what `dds.load` returns inside it is the value
most recently kept at the path by a completed evaluation.
-/
namespace Dds
open List

/-! ## The path table after a commit -/

theorem foldl_aset_frame (ps : List (String × Sg)) (acc : List (String × Sg)) (p : String)
    (h : ∀ pk ∈ ps, pk.1 ≠ p) :
    aget (ps.foldl (fun acc pk => aset acc pk.1 pk.2) acc) p = aget acc p := by
  induction ps generalizing acc with
  | nil => rfl
  | cons a ps ih =>
    simp only [foldl_cons]
    rw [ih _ (fun pk hpk => h pk (mem_cons_of_mem _ hpk))]
    exact aget_aset_ne _ _ _ _ (fun e => h a mem_cons_self e.symm)

theorem foldl_aset_sets (ps : List (String × Sg)) (acc : List (String × Sg)) (p : String) (k : Sg)
    (hm : (p, k) ∈ ps) (hnd : (ps.map Prod.fst).Nodup) :
    aget (ps.foldl (fun acc pk => aset acc pk.1 pk.2) acc) p = some k := by
  induction ps generalizing acc with
  | nil => cases hm
  | cons a ps ih =>
    simp only [map_cons, nodup_cons, mem_map, not_exists, not_and] at hnd
    simp only [foldl_cons]
    rcases mem_cons.mp hm with h | h
    · subst h
      rw [foldl_aset_frame ps _ p (fun pk hpk e => hnd.1 pk hpk e)]
      exact aget_aset_eq _ _ _
    · exact ih _ h hnd.2

/-- every path of the map resolves to its key after the commit -/
theorem commit_sets (S : PStore) (hn : S.noop = false) (ps : List (String × Sg)) (p : String) (k : Sg)
    (hm : (p, k) ∈ ps) (hnd : (ps.map Prod.fst).Nodup) : aget (S.sync ps).paths p = some k := by
  simp only [PStore.sync, hn]
  exact foldl_aset_sets ps S.paths p k hm hnd

/-- paths that the evaluation did not keep retain their previous content -/
theorem commit_frame (S : PStore) (ps : List (String × Sg)) (p : String) (h : ∀ pk ∈ ps, pk.1 ≠ p) :
    aget (S.sync ps).paths p = aget S.paths p := by
  unfold PStore.sync
  split
  · rfl
  · exact foldl_aset_frame ps S.paths p h

theorem aget_mem' {α} {l : List (String × α)} {k : String} {v : α} (h : aget l k = some v) : (k, v) ∈ l := by
  induction l with
  | nil => simp [aget] at h
  | cons a l ih =>
    obtain ⟨a1, a2⟩ := a
    simp only [aget] at h
    by_cases e : a1 = k
    · simp only [e, if_true, Option.some.injEq] at h; subst e; subst h; exact mem_cons_self
    · simp only [e, if_false] at h; exact mem_cons_of_mem _ (ih h)

theorem aget_none_of_not_mem {α} {l : List (String × α)} {k : String} (h : aget l k = none) : ∀ pk ∈ l, pk.1 ≠ k := by
  induction l with
  | nil => intro pk hpk; cases hpk
  | cons a l ih =>
    obtain ⟨a1, a2⟩ := a
    simp only [aget] at h
    by_cases e : a1 = k
    · simp [e] at h
    · simp only [e, if_false] at h
      intro pk hpk
      rcases mem_cons.mp hpk with rfl | hpk
      · exact e
      · exact ih h pk hpk

/-! ## The keys of the path map are the kept paths of the tree -/

mutual
theorem allStorePaths_keys : ∀ (f : FIS) (acc paths : List (String × Sg)), allStorePaths acc f = .ok paths →
    ∀ p k, aget paths p = some k → aget acc p = some k ∨ p ∈ f.keptPaths
  | .mk n s sp subs loads, acc, paths, h, p, k, hp => by
    unfold allStorePaths at h
    cases sp with
    | none =>
      simp only at h
      rcases allStorePathsL_keys subs acc paths h p k hp with h1 | h1
      · exact Or.inl h1
      · exact Or.inr (by simp only [FIS.keptPaths, nil_append]; exact h1)
    | some q =>
      simp only at h
      cases ho : odSet acc q s with
      | error e => simp [ho] at h
      | ok acc' =>
        simp only [ho] at h
        rcases allStorePathsL_keys subs acc' paths h p k hp with h1 | h1
        · rcases odSet_get ho p k h1 with h2 | ⟨rfl, _⟩
          · exact Or.inl h2
          · exact Or.inr (by simp [FIS.keptPaths])
        · exact Or.inr (by simp only [FIS.keptPaths, mem_append]; exact Or.inr h1)
theorem allStorePathsL_keys : ∀ (fs : List FIS) (acc paths : List (String × Sg)), allStorePathsL acc fs = .ok paths →
    ∀ p k, aget paths p = some k → aget acc p = some k ∨ p ∈ FIS.keptPathsL fs
  | [], acc, paths, h, p, k, hp => by
    simp only [allStorePathsL, Except.ok.injEq] at h; subst h; exact Or.inl hp
  | f :: fs, acc, paths, h, p, k, hp => by
    unfold allStorePathsL at h
    cases hf : allStorePaths acc f with
    | error e => simp [hf] at h
    | ok acc' =>
      simp only [hf] at h
      rcases allStorePathsL_keys fs acc' paths h p k hp with h1 | h1
      · rcases allStorePaths_keys f acc acc' hf p k h1 with h2 | h2
        · exact Or.inl h2
        · exact Or.inr (by simp only [FIS.keptPathsL, mem_append]; exact Or.inl h2)
      · exact Or.inr (by simp only [FIS.keptPathsL, mem_append]; exact Or.inr h1)
end

/-! ## What an evaluation does to the path table -/

/-- the evaluation completed: it returned a value and the commit stage ran -/
def Completed (o : Outcome) (rq : Request) : Prop := (∃ v, o.value = .ok (some v)) ∧ Stage.pathCommit ∈ rq.stages

theorem fin_ok (rq : Request) (paths : List (String × Sg)) (st : XSt) (w : RVal) (o : Outcome)
    (ho : o = { value := .ok (some w), log := st.log, requested := paths,
                store := if Stage.pathCommit ∈ rq.stages then st.store.sync paths else st.store }) :
    (Completed o rq → o.store = st.store.sync paths) ∧ (¬ Completed o rq → o.store = st.store) := by
  subst ho
  unfold Completed
  constructor
  · intro h; simp only [h.2, if_true]
  · intro hn
    by_cases hpc : Stage.pathCommit ∈ rq.stages
    · exact absurd ⟨⟨w, rfl⟩, hpc⟩ hn
    · simp only [hpc, if_false]

theorem fin_err (rq : Request) (paths : List (String × Sg)) (st : XSt) (e : XErr) (o : Outcome)
    (ho : o = { value := .error e, log := st.log, requested := paths, store := st.store }) :
    (Completed o rq → o.store = st.store.sync paths) ∧ (¬ Completed o rq → o.store = st.store) := by
  subst ho
  unfold Completed
  constructor
  · intro h
    obtain ⟨⟨v, hv⟩, _⟩ := h
    cases hv
  · intro _; rfl

/-- the store after an evaluation: the blobs written by the run, then (when the evaluation completed) the commit of the
path map -/
theorem evalStep_store {m : Nat} {W : World} {S : PStore} {rq : Request} {fn : Fn} {env : Env} {fis : FIS}
    {paths : List (String × Sg)} (ha : analysisPhase m W S rq = .ok (fn, env, fis, paths)) :
    ∃ S0 : PStore, S0.paths = S.paths ∧ S0.noop = S.noop ∧
      (Completed (evalStep m W S rq) rq → (evalStep m W S rq).store = S0.sync paths) ∧
      (¬ Completed (evalStep m W S rq) rq → (evalStep m W S rq).store = S0) := by
  by_cases hs : Stage.eval ∈ rq.stages
  · simp only [evalStep, ha, hs, not_true_eq_false, if_false]
    cases hb : sgGet S.blobs fis.retSig with
    | some w => exact ⟨S, rfl, rfl, fin_ok rq paths { store := S } w _ rfl⟩
    | none =>
      simp only
      have hp := runFn_paths W paths W.fuel { store := S } fn env
      have hno := runFn_noop W paths W.fuel { store := S } fn env
      cases hr : runFn W paths W.fuel { store := S } fn env with
      | mk rv st =>
        rw [hr] at hp hno
        simp only at hp hno
        cases rv with
        | error e => exact ⟨st.store, hp, hno, fin_err rq paths st e _ rfl⟩
        | ok w =>
          simp only
          cases hsp : fis.storePath with
          | none => exact ⟨st.store, hp, hno, fin_ok rq paths st w _ rfl⟩
          | some pth =>
            simp only
            cases hk : aget paths pth with
            | none => exact ⟨st.store, hp, hno, fin_err rq paths st (.dds .keyError) _ rfl⟩
            | some key =>
              refine ⟨st.store.storeBlob key w, ?_, ?_, fin_ok rq paths { st with store := st.store.storeBlob key w } w _ rfl⟩
              · simp only [PStore.storeBlob]; split <;> simp [hp]
              · simp only [storeBlob_noop]; exact hno
  · refine ⟨S, rfl, rfl, ?_, ?_⟩
    · intro h
      obtain ⟨⟨v, hv⟩, _⟩ := h
      simp only [evalStep, ha, hs, not_false_eq_true, if_true] at hv
      cases hv
    · intro _
      simp only [evalStep, ha, hs, not_false_eq_true, if_true]

/-! ## The invariant of a history -/

/-- the paths loaded by the evaluation are not produced by it: they resolve through the store -/
def ExternalLoads (m : Nat) (W : World) (S : PStore) (rq : Request) : Prop :=
  ∀ fn env fis paths, analysisPhase m W S rq = .ok (fn, env, fis, paths) → ∀ p ∈ fis.allLoads, External paths p

/-- a computable check of `ExternalLoads` on the result of the analysis -/
def extLoadsB (r : Except DdsErr (Fn × Env × FIS × List (String × Sg))) : Bool :=
  match r with
  | .ok (_, _, fis, paths) => fis.allLoads.all (fun p => (aget paths p).isNone)
  | .error _ => true

theorem externalLoads_of_check {m : Nat} {W : World} {S : PStore} {rq : Request}
    (h : extLoadsB (analysisPhase m W S rq) = true) : ExternalLoads m W S rq := by
  intro fn env fis paths ha p hp
  rw [ha] at h
  simp only [extLoadsB, all_eq_true] at h
  have := h p hp
  unfold External
  cases hg : aget paths p with
  | none => rfl
  | some k => simp [hg] at this

structure HInv (U : Universe) (m x : Nat) (h : HState) : Prop where
  sound : Sound U m x h.store
  kept : PathsKept h.store h.kept
  kind : (h.store.noop = false ∧ Closed U m h.store) ∨ (h.store.noop = true ∧ h.store.paths = [])

theorem hinv_empty (U : Universe) (m x : Nat) (noop : Bool) : HInv U m x { store := { noop := noop }, kept := [] } where
  sound := sound_empty U m x noop
  kept := fun p k h => by simp [aget] at h
  kind := by
    cases noop
    · exact Or.inl ⟨rfl, closed_empty U m false⟩
    · exact Or.inr ⟨rfl, rfl⟩

/-- the path the value of the entry call is kept at -/
theorem entry_storePath {m : Nat} {W : World} {S : PStore} {rq : Request} {fn : Fn} {env : Env} {fis' : FIS}
    {paths : List (String × Sg)} {named : List (String × Option Sg)} {refs0 : Refs} {fis : FIS} {r : Refs}
    (P : PhaseOk m W S rq fn env fis' paths named refs0 fis r) :
    fis'.storePath = (match entryPathOf rq fn with | some p => some p | none => fn.storePath) := by
  rw [P.hfis]
  cases entryPathOf rq fn with
  | none => exact analyse_storePath P.hana
  | some p => rfl

/-- the values plain execution has kept after an accepted evaluation whose plain execution returned -/
theorem kept_after (U : Universe) (m x : Nat) (W : World) (S : PStore) (K : LoadEnv) (rq : Request)
    (E : EvalCtx U x W) (hrq : U.request rq) (hS : Sound U m x S) (hPK : PathsKept S K)
    {fn : Fn} {env : Env} {fis' : FIS} {paths : List (String × Sg)}
    (ha : analysisPhase m W S rq = .ok (fn, env, fis', paths)) (hext : ∀ p ∈ fis'.allLoads, External paths p)
    {v : RVal} {pst : PSt} (hp : plainFn W W.fuel { kept := K } fn env = (.ok v, pst)) :
    (plainRun W K rq).1 = .ok v ∧
    (∀ p, External paths p → aget (plainRun W K rq).2.kept p = aget K p) ∧
    (∀ p k, aget paths p = some k → ∃ w, aget (plainRun W K rq).2.kept p = some w ∧ Right U m x S.blobs k w) := by
  obtain ⟨named, refs0, fis, r, P⟩ := analysisPhase_inv ha
  obtain ⟨_, _, _, m4, m5⟩ := memo_correct U m x W S K rq E hrq hS hPK ha hext
  rw [hp] at m4 m5
  simp only at m4 m5
  obtain ⟨mr, ms⟩ := m5 v rfl
  have hsubs' : fis'.subs = fis.subs := by rw [P.hfis]; cases entryPathOf rq fn <;> rfl
  obtain ⟨k1, k2⟩ := (pathsOK_iff paths fis').mp ((allStorePaths_ok fis' [] paths P.hpaths).2 paths (fun _ _ h => h))
  rw [hsubs'] at k2
  have hfr : KFrame paths { kept := K } pst := by
    have := pframe m W paths W.fuel refs0 [] fn ⟨named, none⟩ env fis r { kept := K } P.hana k2
    rw [hp] at this; exact this
  have hsp := entry_storePath P
  have hrun : plainRun W K rq = (.ok v, match fis'.storePath with
      | some p => { pst with kept := aset pst.kept p v } | none => pst) := by
    simp only [plainRun, P.hfind, P.hbind, hp, hsp]
    rfl
  rw [hrun]
  refine ⟨rfl, ?_, ?_⟩
  · intro p hpe
    cases hsp' : fis'.storePath with
    | none => simp only; exact hfr p hpe
    | some q =>
      simp only
      have hq : aget paths q = some fis'.retSig := k1 q hsp'
      have hne : p ≠ q := by
        intro e; subst e
        rw [show aget paths p = none from hpe] at hq; cases hq
      rw [aget_aset_ne _ _ _ _ hne]; exact hfr p hpe
  · intro p k hpk
    have hmem : p ∈ fis'.keptPaths := by
      rcases allStorePaths_keys fis' [] paths P.hpaths p k hpk with h | h
      · simp [aget] at h
      · exact h
    cases hsp' : fis'.storePath with
    | none =>
      simp only
      rcases (keptPaths_iff fis' p).mp hmem with h | h
      · rw [hsp'] at h; cases h
      · exact ms p h k hpk
    | some q =>
      simp only
      have hq : aget paths q = some fis'.retSig := k1 q hsp'
      by_cases hpq : p = q
      · subst hpq
        rw [hq] at hpk
        simp only [Option.some.injEq] at hpk
        subst hpk
        exact ⟨v, aget_aset_eq _ _ _, mr⟩
      · rcases (keptPaths_iff fis' p).mp hmem with h | h
        · rw [hsp'] at h; simp only [Option.some.injEq] at h; exact absurd h.symm hpq
        · obtain ⟨w, h1, h2⟩ := ms p h k hpk
          exact ⟨w, by rw [aget_aset_ne _ _ _ _ hpq]; exact h1, h2⟩

theorem histStep_store (m : Nat) (h : HState) (W : World) (rq : Request) :
    (histStep m h W rq).store = (evalStep m W h.store rq).store := rfl

/-- the values kept after a step: those of plain execution when the evaluation completed (and plain execution returned),
the previous ones otherwise -/
theorem histStep_kept (m : Nat) (h : HState) (W : World) (rq : Request) :
    (Completed (evalStep m W h.store rq) rq → ∀ v, (plainRun W h.kept rq).1 = .ok v →
      (histStep m h W rq).kept = (plainRun W h.kept rq).2.kept) ∧
    (¬ Completed (evalStep m W h.store rq) rq → (histStep m h W rq).kept = h.kept) := by
  unfold Completed
  simp only [histStep]
  constructor
  · intro ⟨⟨w, hw⟩, hpc⟩ v hv
    simp only [hw, hv, List.contains_iff_mem.mpr hpc, if_true]
  · intro hn
    cases hv : (plainRun W h.kept rq).1 with
    | error e => rfl
    | ok v =>
      simp only
      cases ho : (evalStep m W h.store rq).value with
      | error e => simp
      | ok ov =>
        cases ov with
        | none => simp
        | some w =>
          simp only
          have : Stage.pathCommit ∉ rq.stages := fun hpc => hn ⟨⟨w, ho⟩, hpc⟩
          simp [this]

/-- **one evaluation keeps the invariant of the history** -/
theorem hinv_step (U : Universe) (m x : Nat) (h : HState) (W : World) (rq : Request)
    (E : EvalCtx U x W) (hrq : U.request rq) (hext : ExternalLoads m W h.store rq) (hI : HInv U m x h) :
    HInv U m x (histStep m h W rq) := by
  cases ha : analysisPhase m W h.store rq with
  | error e =>
    obtain ⟨e1, e2⟩ := evalStep_rejected ha
    have hk : (histStep m h W rq).kept = h.kept :=
      (histStep_kept m h W rq).2 (fun ⟨⟨v, hv⟩, _⟩ => by rw [e2] at hv; cases hv)
    exact { sound := by rw [histStep_store, e1]; exact hI.sound,
            kept := by rw [histStep_store, e1, hk]; exact hI.kept,
            kind := by rw [histStep_store, e1]; exact hI.kind }
  | ok res =>
    obtain ⟨fn, env, fis', paths⟩ := res
    have hx := hext fn env fis' paths ha
    obtain ⟨m1, m2, m3, _, _⟩ := memo_correct U m x W h.store h.kept rq E hrq hI.sound hI.kept ha hx
    obtain ⟨S0, s1, s2, s3, s4⟩ := evalStep_store ha
    obtain ⟨named, refs0, fis, r, P⟩ := analysisPhase_inv ha
    -- the kind of store is kept
    have hkind : ((histStep m h W rq).store.noop = false ∧ Closed U m (histStep m h W rq).store) ∨
        ((histStep m h W rq).store.noop = true ∧ (histStep m h W rq).store.paths = []) := by
      rw [histStep_store]
      rcases hI.kind with ⟨hn, hC⟩ | ⟨hn, hp⟩
      · obtain ⟨c1, c2⟩ := closed_evalStep U m W h.store rq E.hW hC hn
        exact Or.inl ⟨c2, c1⟩
      · right
        have hS0 : S0.sync paths = S0 := by simp [PStore.sync, s2, hn]
        by_cases hc : Completed (evalStep m W h.store rq) rq
        · rw [s3 hc, hS0, s2, s1]; exact ⟨hn, hp⟩
        · rw [s4 hc, s2, s1]; exact ⟨hn, hp⟩
    refine { sound := by rw [histStep_store]; exact m1, kept := ?_, kind := hkind }
    rw [histStep_store]
    intro p k hpk
    by_cases hc : Completed (evalStep m W h.store rq) rq
    · -- the evaluation completed: plain execution returned too, and its kept values are taken over
      obtain ⟨⟨v, hv⟩, hpc⟩ := hc
      have hs : Stage.eval ∈ rq.stages := by
        by_cases hs : Stage.eval ∈ rq.stages
        · exact hs
        · simp only [evalStep, ha, hs, not_false_eq_true, if_true] at hv
          cases hv
      have hpl := m3 hs
      rw [hv] at hpl
      cases hp : plainFn W W.fuel { kept := h.kept } fn env with
      | mk pv pst =>
        rw [hp] at hpl
        cases pv with
        | error e => simp [Except.map] at hpl
        | ok v' =>
          obtain ⟨a1, a2, a3⟩ := kept_after U m x W h.store h.kept rq E hrq hI.sound hI.kept ha hx hp
          rw [((histStep_kept m h W rq).1 ⟨⟨v, hv⟩, hpc⟩) v' a1]
          rw [s3 ⟨⟨v, hv⟩, hpc⟩] at hpk
          rcases hI.kind with ⟨hn, hC⟩ | ⟨hn, hpe⟩
          · cases hpp : aget paths p with
            | some k' =>
              have hnd := allStorePaths_nodup fis' [] paths P.hpaths (by simp)
              rw [commit_sets S0 (by rw [s2]; exact hn) paths p k' (aget_mem' hpp) hnd] at hpk
              simp only [Option.some.injEq] at hpk
              subst hpk
              obtain ⟨w, w1, w2⟩ := a3 p k' hpp
              have hsome := requested_paths_stored U m W h.store rq E.hW hC hn ha hs hv p k' hpp
              cases hw : sgGet (evalStep m W h.store rq).store.blobs k' with
              | none => simp [hw] at hsome
              | some w' =>
                have := (m1 k' w' hw).unique (w2.mono m2)
                subst this
                exact ⟨w', rfl, w1⟩
            | none =>
              rw [commit_frame S0 paths p (aget_none_of_not_mem hpp), s1] at hpk
              obtain ⟨w, w1, w2⟩ := hI.kept p k hpk
              exact ⟨w, m2 k w w1, by rw [a2 p hpp]; exact w2⟩
          · -- a noop store commits nothing
            have hS0 : S0.sync paths = S0 := by simp [PStore.sync, s2, hn]
            rw [hS0, s1, hpe] at hpk
            simp [aget] at hpk
    · rw [(histStep_kept m h W rq).2 hc]
      rw [s4 hc, s1] at hpk
      obtain ⟨w, w1, w2⟩ := hI.kept p k hpk
      exact ⟨w, m2 k w w1, w2⟩

/-! ## Histories -/

/-- every step of the history is an evaluation of a version of the code of the universe that does not itself produce the
paths it loads -/
def histOK (U : Universe) (m x : Nat) : HState → List HStep → Prop
  | _, [] => True
  | h, s :: ss => s.ok U x ∧ ExternalLoads m s.world h.store s.rq ∧ histOK U m x (histStep m h s.world s.rq) ss

theorem hinv_history (U : Universe) (m x : Nat) : ∀ (hist : List HStep) (h : HState), HInv U m x h → histOK U m x h hist →
    HInv U m x (runHist m h hist)
  | [], _, hI, _ => hI
  | s :: ss, h, hI, hok => by
    obtain ⟨⟨h1, h2⟩, h3, h4⟩ := hok
    exact hinv_history U m x ss _ (hinv_step U m x h s.world s.rq h1 h2 h3 hI) h4

/-- **`history_value`.** After any history of evaluations from an empty store (real or noop) — of older versions of the
code, with other variable values and arguments, restricted to any stages, failed or not — an evaluation of the current
version returns exactly what plain execution of the current version returns from the values kept so far. -/
theorem history_value (U : Universe) (m x : Nat) (noop : Bool) (hist : List HStep)
    (hok : histOK U m x { store := { noop := noop }, kept := [] } hist)
    (W : World) (rq : Request) (E : EvalCtx U x W) (hrq : U.request rq)
    {fn : Fn} {env : Env} {fis : FIS} {paths : List (String × Sg)}
    (ha : analysisPhase m W (runHist m { store := { noop := noop }, kept := [] } hist).store rq = .ok (fn, env, fis, paths))
    (hext : ∀ p ∈ fis.allLoads, External paths p) (hs : Stage.eval ∈ rq.stages) :
    (evalStep m W (runHist m { store := { noop := noop }, kept := [] } hist).store rq).value =
      ((plainFn W W.fuel { kept := (runHist m { store := { noop := noop }, kept := [] } hist).kept } fn env).1).map some := by
  have hI := hinv_history U m x hist _ (hinv_empty U m x noop) hok
  exact (memo_correct U m x W _ _ rq E hrq hI.sound hI.kept ha hext).2.2.1 hs

/-! ## Load-free pipelines: the hypothesis on loads holds trivially -/

/-- no function of this version calls `dds.load` -/
def World.loadFree (W : World) : Prop := ∀ f ∈ W.funs, ∀ it ∈ f.items, ∀ p l, it ≠ Item.load p l

def LoadFreeFn (m : Nat) (W : World) (fuel : Nat) : Prop :=
  ∀ (refs : Refs) (stack : List String) (fn : Fn) (ctx : ArgCtx) (fis : FIS) (r : Refs), fn ∈ W.funs →
    analyse m W fuel refs stack fn ctx = .ok (fis, r) → fis.allLoads = []

theorem allLoadsL_snoc (a : List FIS) (f : FIS) (h1 : FIS.allLoadsL a = []) (h2 : f.allLoads = []) :
    FIS.allLoadsL (a ++ [f]) = [] := by
  induction a with
  | nil => simp [FIS.allLoadsL, h2]
  | cons x a ih =>
    simp only [FIS.allLoadsL, append_eq_nil_iff] at h1
    simp only [cons_append, FIS.allLoadsL, h1.1, ih h1.2, append_nil]

theorem loadfree_items {m : Nat} {W : World} {fuel : Nat} (hIH : LoadFreeFn m W fuel) (fn : Fn) (isig : Sg)
    (stack : List String) :
    ∀ (its : List Item), (∀ it ∈ its, ∀ p l, it ≠ Item.load p l) → ∀ (s sfin : VisitSt),
      visitItems m W (analyse m W fuel) fn isig stack s its = .ok sfin →
      s.loads = [] → FIS.allLoadsL s.inters = [] → sfin.loads = [] ∧ FIS.allLoadsL sfin.inters = []
  | [], _, s, sfin, hv, h1, h2 => by
    simp only [visitItems, pure, Except.pure, Except.ok.injEq] at hv
    subst hv; exact ⟨h1, h2⟩
  | it :: its, hnl, s, sfin, hrest, h1, h2 => by
    obtain ⟨t, hv, hr⟩ := visitItems_cons_inv hrest
    have hnl' : ∀ x ∈ its, ∀ p l, x ≠ Item.load p l := fun x hx => hnl x (mem_cons_of_mem _ hx)
    have step : t.loads = [] ∧ FIS.allLoadsL t.inters = [] := by
      have one : ∀ {f : String} {args kwargs line g c named fis rf},
          CallStep m W (analyse m W fuel) fn isig stack s f args kwargs line g c named fis rf → fis.allLoads = [] :=
        fun hstep => hIH _ _ _ _ _ _ (List.mem_of_find?_eq_some hstep.find) hstep.sub
      cases it with
      | call f l =>
        obtain ⟨g, c, named, fis, rf, hstep, e⟩ := plain_inv (by simpa [visitItem] using hv)
        rw [e]; exact ⟨h1, allLoadsL_snoc _ _ h2 (one hstep)⟩
      | callArgs f args kwargs rtA rtK l =>
        obtain ⟨g, c, named, fis, rf, hstep, e⟩ := plain_inv (by simpa [visitItem] using hv)
        rw [e]; exact ⟨h1, allLoadsL_snoc _ _ h2 (one hstep)⟩
      | keep path f args kwargs rtA rtK l =>
        obtain ⟨g, c, named, fis, rf, hstep, _, e⟩ := keep_inv hv
        rw [e]; exact ⟨h1, allLoadsL_snoc _ _ h2 (by rw [withPath_allLoads]; exact one hstep)⟩
      | ref f l =>
        rcases ref_inv hv with ⟨_, e⟩ | ⟨_, g, c, named, fis, rf, hstep, e⟩
        · rw [e]; exact ⟨h1, h2⟩
        · rw [e]; exact ⟨h1, allLoadsL_snoc _ _ h2 (one hstep)⟩
      | load path l => exact absurd rfl (hnl _ mem_cons_self path l)
      | evalCall f l => simp [visitItem] at hv
    exact loadfree_items hIH fn isig stack its hnl' t sfin hr step.1 step.2

theorem loadfree_fn (m : Nat) (W : World) (hW : W.loadFree) : ∀ fuel, LoadFreeFn m W fuel
  | 0 => by
    intro refs stack fn ctx fis r _ ha
    exact absurd ha analyse_zero
  | k + 1 => by
    intro refs stack fn ctx fis r hfn ha
    obtain ⟨ev, io, sv, b, d, ret, a⟩ := analyse_inv ha
    obtain ⟨l1, l2⟩ := loadfree_items (loadfree_fn m W hW k) fn _ stack fn.items (hW fn hfn) _ sv a.hvisit rfl rfl
    have hd : d = [] := by
      have := lookupRefs_fst a.hdeps
      rw [l1] at this
      simpa [dedupStr] using this
    rw [a.hfis]
    simp only [FIS.allLoads, hd, l2, map_nil, append_nil]

/-- a version without `dds.load` meets the hypothesis on loads, against any store -/
theorem externalLoads_of_loadFree {m : Nat} {W : World} (hW : W.loadFree) (S : PStore) (rq : Request) :
    ExternalLoads m W S rq := by
  intro fn env fis paths ha p hp
  obtain ⟨named, refs0, fis0, r, P⟩ := analysisPhase_inv ha
  have h0 := loadfree_fn m W hW W.fuel refs0 [] fn ⟨named, none⟩ fis0 r (List.mem_of_find?_eq_some P.hfind) P.hana
  have : fis.allLoads = [] := by
    rw [P.hfis]
    cases entryPathOf rq fn with
    | none => exact h0
    | some q => rw [withPath_allLoads]; exact h0
  rw [this] at hp; cases hp

/-- histories of load-free versions: `histOK` needs nothing about loads -/
theorem histOK_of_loadFree (U : Universe) (m x : Nat) : ∀ (hist : List HStep) (h : HState),
    (∀ s ∈ hist, s.ok U x ∧ s.world.loadFree) → histOK U m x h hist
  | [], _, _ => trivial
  | s :: ss, h, hok =>
    ⟨(hok s mem_cons_self).1, externalLoads_of_loadFree (hok s mem_cons_self).2 _ _,
      histOK_of_loadFree U m x ss _ (fun t ht => hok t (mem_cons_of_mem _ ht))⟩

end Dds
