import DdsModel.Imports
/-!
# The imports of a function body are resolved as Python resolves them (`dds_refs_eq`)
-/
namespace Dds.Imports
open List

def flatL : List Sc → List String
  | [] => []
  | s :: rest => enter (flatL rest) [] s.vars s.globs

def flatA (acc : Path → Bool) : List Sc → Aliases
  | [] => []
  | s :: rest => enterA acc (flatA acc rest) (s.vars ++ s.globs) s.imps

theorem mem_enter {L ps b g : List String} {x : String} :
    x ∈ enter L ps b g ↔ x ∉ g ∧ (x ∈ L ∨ x ∈ ps ∨ x ∈ b) := by
  simp only [enter, mem_append, mem_filter, decide_eq_true_eq]
  constructor
  · rintro (⟨h1, h2⟩ | ⟨h1 | h1, h2⟩)
    · exact ⟨h2, Or.inl h1⟩
    · exact ⟨h2, Or.inr (Or.inl h1)⟩
    · exact ⟨h2, Or.inr (Or.inr h1)⟩
  · rintro ⟨h2, h1 | h1 | h1⟩
    · exact Or.inl ⟨h1, h2⟩
    · exact Or.inr ⟨Or.inl h1, h2⟩
    · exact Or.inr ⟨Or.inr h1, h2⟩

theorem lookup_filter_key (P : String → Bool) (x : String) :
    ∀ (A : Aliases), (A.filter (fun kv => P kv.1)).lookup x = if P x then A.lookup x else none
  | [] => by simp [List.lookup]
  | (k, v) :: rest => by
    by_cases hk : P k
    · simp only [List.filter_cons, hk, if_true]
      by_cases hx : x = k
      · subst hx; simp [List.lookup, hk]
      · have : (x == k) = false := by simpa using hx
        simp only [List.lookup, this]
        exact lookup_filter_key P x rest
    · simp only [List.filter_cons, hk]
      by_cases hx : x = k
      · subst hx; simp [hk, lookup_filter_key P x rest]
      · have : (x == k) = false := by simpa using hx
        simp only [List.lookup, this]
        simpa using lookup_filter_key P x rest

theorem lookup_none_iff (x : String) : ∀ (A : Aliases), A.lookup x = none ↔ x ∉ A.map Prod.fst
  | [] => by simp [List.lookup]
  | (k, v) :: rest => by
    by_cases hx : x = k
    · subst hx; simp [List.lookup]
    · have : (x == k) = false := by simpa using hx
      simp only [List.lookup, this, map_cons, mem_cons, hx, false_or]
      exact lookup_none_iff x rest

theorem lookup_mem (x : String) (p : Path) : ∀ (A : Aliases), A.lookup x = some p → (x, p) ∈ A
  | [] => by simp [List.lookup]
  | (k, v) :: rest => by
    by_cases hx : x = k
    · subst hx; simp [List.lookup]; intro h; exact Or.inl h.symm
    · have : (x == k) = false := by simpa using hx
      simp only [List.lookup, this, mem_cons]
      intro h; exact Or.inr (lookup_mem x p rest h)


variable (acc : Path → Bool)

theorem impsOK_acc {imps : List (String × Path)} (h : impsOK acc imps = true) :
    imps.filter (fun kv => acc kv.2) = imps := by
  rw [List.filter_eq_self]
  intro kv hkv
  exact (List.all_eq_true.mp h) kv hkv

/-- the aliases inside a scope: the imports of the scope first, then what the scope does not hide -/
theorem lookup_enterA {A : Aliases} {own : List String} {imps : List (String × Path)} (x : String)
    (h : impsOK acc imps = true) :
    (enterA acc A own imps).lookup x =
      match imps.lookup x with
      | some p => some p
      | none => if x ∈ own then none else A.lookup x := by
  unfold enterA
  rw [impsOK_acc acc h, List.lookup_append]
  cases hl : imps.lookup x with
  | some p => simp
  | none =>
    have hn : x ∉ imps.map Prod.fst := (lookup_none_iff x imps).mp hl
    have := lookup_filter_key (fun k => decide (k ∉ own ∧ k ∉ imps.map Prod.fst)) x A
    simp only [Option.none_or]
    rw [this]
    by_cases ho : x ∈ own
    · simp [ho]
    · simp [ho, hn]

def chainOK (chain : List Sc) : Prop := ∀ s ∈ chain, scOK acc s = true

/-- the two sets the code maintains describe Python's resolution of every name -/
theorem resolve_flat (x : String) : ∀ (chain : List Sc), chainOK acc chain →
    resolve chain x = match (flatA acc chain).lookup x with
      | some p => .path p
      | none => if x ∈ flatL chain then .loc else .glob
  | [], _ => by simp [resolve, flatA, flatL]
  | s :: rest, h => by
    have hs : scOK acc s = true := h s (by simp)
    have hrest : chainOK acc rest := fun t ht => h t (by simp [ht])
    simp only [scOK] at hs
    simp only [resolve, flatA, flatL, lookup_enterA acc x hs, mem_enter]
    cases hl : s.imps.lookup x with
    | some p => simp
    | none =>
      simp only
      by_cases hg : x ∈ s.globs
      · simp [hg]
      · by_cases hv : x ∈ s.vars
        · simp [hg, hv]
        · simp only [hg, hv, if_false, mem_append, or_self, not_false_eq_true, true_and, or_false, List.not_mem_nil]
          exact resolve_flat x rest hrest

theorem enter_params (L ps b g : List String) : enter L ps b g = enter L [] (ps ++ b) g := by simp [enter]

theorem extE_pyE : ∀ (e : Expr) (chain : List Sc), chainOK acc chain → exprOK e = true →
    extE (flatL chain) (resE acc (flatA acc chain) e) = pyE chain e
  | .name x, chain, h, _ => by
    simp only [resE, pyE, resolve_flat acc x chain h]
    cases hl : (flatA acc chain).lookup x with
    | some p => simp [extE]
    | none =>
      by_cases hx : x ∈ flatL chain
      · simp [extE, hx]
      · simp [extE, hx]
  | .const, _, _, _ => rfl
  | .path _, _, _, hk => by simp [exprOK] at hk
  | .attr e _, chain, h, hk => by
    simp only [resE, extE, pyE]
    exact extE_pyE e chain h (by simpa [exprOK] using hk)
  | .app f a, chain, h, hk => by
    simp only [exprOK, Bool.and_eq_true] at hk
    simp only [resE, extE, pyE, extE_pyE f chain h hk.1, extE_pyE a chain h hk.2]
  | .lam ps body, chain, h, hk => by
    simp only [exprOK] at hk
    have hc : chainOK acc (⟨ps, [], []⟩ :: chain) := by
      intro s hs
      rcases List.mem_cons.mp hs with rfl | hs
      · simp [scOK, impsOK]
      · exact h s hs
    have := extE_pyE body (⟨ps, [], []⟩ :: chain) hc hk
    simp only [flatL, flatA, List.append_nil] at this
    have e1 : enter (flatL chain) ps [] [] = enter (flatL chain) [] ps [] := by simp [enter]
    simp only [resE, extE, pyE, e1]
    exact this
  | .comp ts it inn, chain, h, hk => by
    simp only [exprOK, Bool.and_eq_true] at hk
    have hc : chainOK acc (⟨ts, [], []⟩ :: chain) := by
      intro s hs
      rcases List.mem_cons.mp hs with rfl | hs
      · simp [scOK, impsOK]
      · exact h s hs
    have := extE_pyE inn (⟨ts, [], []⟩ :: chain) hc hk.2
    simp only [flatL, flatA, List.append_nil] at this
    simp only [resE, extE, pyE, extE_pyE it chain h hk.1]
    rw [this]

theorem boundS_resS (A : Aliases) : ∀ (s : Stmt), boundS (resS acc A s) = boundS s
  | .expr _ => rfl
  | .assign _ _ => rfl
  | .imp _ _ => rfl
  | .global _ => rfl
  | .defn _ _ _ _ => rfl
  | .seq a b => by simp only [resS, boundS, boundS_resS A a, boundS_resS A b]
  | .skip => rfl

theorem globalsS_resS (A : Aliases) : ∀ (s : Stmt), globalsS (resS acc A s) = globalsS s
  | .expr _ => rfl
  | .assign _ _ => rfl
  | .imp _ _ => rfl
  | .global _ => rfl
  | .defn _ _ _ _ => rfl
  | .seq a b => by simp only [resS, globalsS, globalsS_resS A a, globalsS_resS A b]
  | .skip => rfl

theorem extS_pyS : ∀ (s : Stmt) (chain : List Sc), chainOK acc chain → stmtOK acc s = true →
    extS (flatL chain) (resS acc (flatA acc chain) s) = pyS chain s
  | .expr e, chain, h, hk => by simp only [resS, extS, pyS]; exact extE_pyE acc e chain h (by simpa [stmtOK] using hk)
  | .assign _ e, chain, h, hk => by simp only [resS, extS, pyS]; exact extE_pyE acc e chain h (by simpa [stmtOK] using hk)
  | .imp _ _, _, _, _ => rfl
  | .global _, _, _, _ => rfl
  | .defn _ ps hdr body, chain, h, hk => by
    simp only [stmtOK, Bool.and_eq_true] at hk
    have hc : chainOK acc (⟨ps ++ boundS body, globalsS body, impsS body⟩ :: chain) := by
      intro s hs
      rcases List.mem_cons.mp hs with rfl | hs
      · simp [scOK, hk.1.2]
      · exact h s hs
    have := extS_pyS body (⟨ps ++ boundS body, globalsS body, impsS body⟩ :: chain) hc hk.2
    simp only [flatL, flatA] at this
    simp only [resS, extS, pyS, extE_pyE acc hdr chain h hk.1.1, boundS_resS, globalsS_resS]
    rw [enter_params, this]
  | .seq a b, chain, h, hk => by
    simp only [stmtOK, Bool.and_eq_true] at hk
    simp only [resS, extS, pyS, extS_pyS a chain h hk.1, extS_pyS b chain h hk.2]
  | .skip, _, _, _ => rfl

/-- **the objects and the names the analysis looks up are those Python's scoping rules give**, occurrence by occurrence:
for every function body whose imports are from accepted packages -/
theorem dds_refs_eq (params : List String) (body : Stmt) (hb : stmtOK acc body = true)
    (hi : impsOK acc (impsS body) = true) : ddsRefs acc params body = pyRefs params body := by
  have hc : chainOK acc [⟨params ++ boundS body, globalsS body, impsS body⟩] := by
    intro s hs
    rcases List.mem_cons.mp hs with rfl | hs
    · simp [scOK, hi]
    · cases hs
  have := extS_pyS acc body _ hc hb
  simp only [flatL, flatA] at this
  unfold ddsRefs pyRefs
  rw [← this, enter_params]
  simp [enterA]

/-! ## A name with two bindings is refused; otherwise every binding of a name is the one that is looked up -/

theorem analyse_refuses (params : List String) (body : Stmt) (h : ambImps acc (impsS body) = true) :
    analyse acc params body = none := by simp [analyse, h]

theorem analyse_accepts (params : List String) (body : Stmt) (h1 : ambImps acc (impsS body) = false)
    (h2 : ambS acc body = false) : analyse acc params body = some (ddsRefs acc params body) := by simp [analyse, h1, h2]

/-- when no name of the scope has two bindings, the binding that is looked up (the first one in the text) is the only one:
the choice of "the first" in `resolve` and in `enterA` chooses nothing -/
theorem lookup_unique {imps : List (String × Path)} (hok : impsOK acc imps = true) (h : ambImps acc imps = false)
    {x : String} {p : Path} (hm : (x, p) ∈ imps) : imps.lookup x = some p := by
  cases hl : imps.lookup x with
  | none => exact absurd (List.mem_map_of_mem (f := Prod.fst) hm) ((lookup_none_iff x imps).mp hl)
  | some q =>
    have hq := lookup_mem x q imps hl
    by_cases hpq : q = p
    · rw [hpq]
    · exfalso
      have hacc : acc q = true := (List.all_eq_true.mp hok) _ hq
      have : ambImps acc imps = true := by
        simp only [ambImps, List.any_eq_true]
        exact ⟨(x, q), hq, (x, p), hm, by simp [hpq, hacc]⟩
      rw [h] at this
      cases this

/-! ## The computations before the repairs miss imported objects -/

/-- `def f(): from lz import model ; return model.score()` -/
def lazyImport : Stmt := .seq (.imp "model" ["lz", "model"]) (.expr (.app (.attr (.name "model") "score") .const))

/-- `def f(): for …: (use tool.run() ; else: from lz import fast as tool)`: the use comes first in the text -/
def useBeforeImport : Stmt := .seq (.expr (.app (.attr (.name "tool") "run") .const)) (.imp "tool" ["lz", "fast"])

/-- `def f(): def g(): from lz.sub import h ; return h()  ;  return g() + h()`: the second `h` is the module's -/
def nestedImport : Stmt :=
  .seq (.defn "g" [] .const (.seq (.imp "h" ["lz", "sub", "h"]) (.expr (.app (.name "h") .const))))
    (.expr (.app (.app (.name "g") .const) (.app (.name "h") .const)))

/-- `if flag: import lz.fast as impl / else: import lz.slow as impl` -/
def twoBindings : Stmt := .seq (.imp "impl" ["lz", "fast"]) (.seq (.imp "impl" ["lz", "slow"]) (.expr (.app (.attr (.name "impl") "run") .const)))

def accLz : Path → Bool := fun p => p.head? == some "lz"

theorem unresolved_misses_import :
    .path ["lz", "model"] ∈ pyRefs [] lazyImport ∧ .path ["lz", "model"] ∉ unresolvedRefs [] lazyImport := by decide
theorem text_order_misses_use_before_import :
    .path ["lz", "fast"] ∈ pyRefs [] useBeforeImport ∧ .path ["lz", "fast"] ∉ textRefs accLz [] useBeforeImport := by decide
theorem text_order_leaks_nested_import :
    .glob "h" ∈ pyRefs [] nestedImport ∧ .glob "h" ∉ textRefs accLz [] nestedImport := by decide
theorem two_bindings_refused : analyse accLz [] twoBindings = none := by decide

/-- `def f(): from lz import fast ; lz = 3 ; return fast.run()`: a local variable with the name of the root package -/
def rootAsLocal : Stmt :=
  .seq (.imp "fast" ["lz", "fast"]) (.seq (.assign ["lz"] .const) (.expr (.app (.attr (.name "fast") "run") .const)))

theorem chain_of_attributes_hidden_by_a_local :
    .path ["lz", "fast"] ∈ pyRefs [] rootAsLocal ∧ .path ["lz", "fast"] ∉ chainRefs accLz [] rootAsLocal := by decide

/-- the hypotheses of `dds_refs_eq` hold of these bodies, and the repaired computation finds what the old ones missed -/
example : stmtOK accLz lazyImport = true ∧ impsOK accLz (impsS lazyImport) = true ∧
    ddsRefs accLz [] lazyImport = [.path ["lz", "model"]] := by decide
example : stmtOK accLz nestedImport = true ∧ impsOK accLz (impsS nestedImport) = true ∧
    ddsRefs accLz [] nestedImport = [.path ["lz", "sub", "h"], .glob "h"] := by decide
example : ddsRefs accLz [] useBeforeImport = [.path ["lz", "fast"]] := by decide
example : stmtOK accLz rootAsLocal = true ∧ impsOK accLz (impsS rootAsLocal) = true ∧
    ddsRefs accLz [] rootAsLocal = [.path ["lz", "fast"]] := by decide

end Dds.Imports
