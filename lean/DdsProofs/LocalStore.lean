import DdsModel.LocalStore
import DdsProofs.Lru
/-! Lemmas for C08: `LocalFileStore` (request level) simulates the dictionary. -/
namespace Dds
open List

theorem decVal_encVal (v : Val) : decVal (encVal v).1 (encVal v).2 = v := by
  cases v with
  | none => rfl
  | some n => simp [encVal, decVal]

theorem lget_lset_eq {α} (l : List (Loc × α)) (k : Loc) (v : α) : lget (lset l k v) k = some v := by
  simp [lset, lget]

theorem lget_filter_ne {α} (l : List (Loc × α)) (k k' : Loc) (h : k' ≠ k) :
    lget (l.filter (fun kv => kv.1 ≠ k)) k' = lget l k' := by
  induction l with
  | nil => rfl
  | cons a l ih =>
    obtain ⟨k2, v2⟩ := a
    by_cases h2 : k2 = k
    · subst h2
      have : (filter (fun kv : Loc × α => decide (kv.1 ≠ k2)) ((k2, v2) :: l)) = filter (fun kv => decide (kv.1 ≠ k2)) l := by
        simp
      rw [this, ih]
      simp [lget, Ne.symm h]
    · have : (filter (fun kv : Loc × α => decide (kv.1 ≠ k)) ((k2, v2) :: l)) = (k2, v2) :: filter (fun kv => decide (kv.1 ≠ k)) l := by
        simp [h2]
      rw [this]
      simp only [lget, ih]

theorem lget_lset_ne {α} (l : List (Loc × α)) (k k' : Loc) (v : α) (h : k' ≠ k) :
    lget (lset l k v) k' = lget l k' := by
  simp only [lset, lget, Ne.symm h, if_false]
  exact lget_filter_ne l k k' h

/-- the universe of DDS paths an operation sequence uses: every one has a location, and two of them
with one location are the same path -/
structure PathUniverse (P : DPath → Prop) : Prop where
  defined : ∀ p, P p → ∃ l, localLoc p = .ok l
  inj : ∀ p q l, P p → P q → localLoc p = .ok l → localLoc q = .ok l → p = q

def blobOf (s : LocalSt) (k : Key) : Option Val :=
  match aget s.blobs k, aget s.metas k with
  | some b, some r => some (decVal b r)
  | _, _ => none

/-- simulation relation between the disk state and the dictionary -/
def LocalRel (P : DPath → Prop) (s : LocalSt) (d : Dict) : Prop :=
  (∀ k, aget d.blobs k = blobOf s k) ∧
  (∀ k, (aget s.blobs k).isSome = (aget s.metas k).isSome) ∧
  (∀ p l, P p → localLoc p = .ok l → aget d.paths p = lget s.links l)

def opOk (P : DPath → Prop) : StoreOp → Prop
  | .sync ps => ∀ pk ∈ ps, P pk.1
  | .fetchPaths ps => ∀ p ∈ ps, P p
  | _ => True

theorem syncAll_sim (P : DPath → Prop) (hP : PathUniverse P) :
    ∀ (ps : List (DPath × Key)) (s : LocalSt) (paths : List (DPath × Key)),
    (∀ pk ∈ ps, P pk.1) →
    (∀ p l, P p → localLoc p = .ok l → aget paths p = lget s.links l) →
    (s.syncAll ps).2 = true ∧ (s.syncAll ps).1.blobs = s.blobs ∧ (s.syncAll ps).1.metas = s.metas ∧
    (∀ p l, P p → localLoc p = .ok l → aget (syncAll paths ps) p = lget (s.syncAll ps).1.links l)
  | [], s, paths, _, h => ⟨rfl, rfl, rfl, h⟩
  | (p, k) :: ps, s, paths, hok, h => by
    obtain ⟨l, hl⟩ := hP.defined p (hok (p, k) mem_cons_self)
    simp only [LocalSt.syncAll, hl, syncAll, foldl_cons]
    have hstep : ∀ p' l', P p' → localLoc p' = .ok l' →
        aget (aset paths p k) p' = lget (lset s.links l k) l' := by
      intro p' l' hp' hl'
      by_cases hpp : p' = p
      · subst hpp
        rw [hl] at hl'; cases hl'
        rw [aget_aset_eq, lget_lset_eq]
      · have hll : l' ≠ l := fun e => hpp (hP.inj p' p l' hp' (hok (p, k) mem_cons_self) hl' (e ▸ hl))
        rw [aget_aset_ne _ _ _ _ hpp, lget_lset_ne _ _ _ _ hll]
        exact h p' l' hp' hl'
    have ih := syncAll_sim P hP ps { s with links := lset s.links l k } (aset paths p k)
      (fun pk hpk => hok pk (mem_cons_of_mem _ hpk)) hstep
    exact ih

theorem resolveAll_sim (P : DPath → Prop) (hP : PathUniverse P) (s : LocalSt) (paths : List (DPath × Key))
    (h : ∀ p l, P p → localLoc p = .ok l → aget paths p = lget s.links l) :
    ∀ (ps seen : List DPath), (∀ p ∈ ps, P p) → s.resolveAll ps seen = resolveAll paths ps seen
  | [], _, _ => rfl
  | p :: ps, seen, hok => by
    obtain ⟨l, hl⟩ := hP.defined p (hok p mem_cons_self)
    have hp := h p l (hok p mem_cons_self) hl
    have ih := resolveAll_sim P hP s paths h ps (p :: seen) (fun q hq => hok q (mem_cons_of_mem _ hq))
    simp only [LocalSt.resolveAll, resolveAll, hl, hp, ih]
    rfl

theorem blobOf_store_eq (s : LocalSt) (k : Key) (v : Val) :
    blobOf { s with blobs := aset s.blobs k (encVal v).1, metas := aset s.metas k (encVal v).2 } k = some v := by
  simp [blobOf, aget_aset_eq, decVal_encVal]

theorem blobOf_store_ne (s : LocalSt) (k k' : Key) (v : Val) (h : k' ≠ k) :
    blobOf { s with blobs := aset s.blobs k (encVal v).1, metas := aset s.metas k (encVal v).2 } k' = blobOf s k' := by
  simp [blobOf, aget_aset_ne _ _ _ _ h]

theorem local_sim (P : DPath → Prop) (hP : PathUniverse P) : Sim (LocalRel P) (opOk P) LocalSt.step := by
  intro s d op hop hrel
  obtain ⟨hb, hm, hp⟩ := hrel
  cases op with
  | store k v =>
    refine ⟨⟨?_, ?_, ?_⟩, rfl⟩
    · intro k'
      simp only [LocalSt.step, Dict.step]
      by_cases hk : k' = k
      · subst hk; rw [aget_aset_eq, blobOf_store_eq]
      · rw [aget_aset_ne _ _ _ _ hk, blobOf_store_ne _ _ _ _ hk]; exact hb k'
    · intro k'
      simp only [LocalSt.step]
      by_cases hk : k' = k
      · subst hk; simp [aget_aset_eq]
      · simp only [aget_aset_ne _ _ _ _ hk]; exact hm k'
    · intro p l hpp hl
      simp only [LocalSt.step, Dict.step]
      exact hp p l hpp hl
  | has k =>
    refine ⟨⟨hb, hm, hp⟩, ?_⟩
    simp only [LocalSt.step, Dict.step, hb k, blobOf]
    have := hm k
    cases h1 : aget s.blobs k <;> cases h2 : aget s.metas k <;> simp_all
  | fetch k =>
    have hfst : (s.step (.fetch k)).1 = s := by
      simp only [LocalSt.step]; cases aget s.blobs k <;> cases aget s.metas k <;> rfl
    refine ⟨by rw [hfst]; exact ⟨hb, hm, hp⟩, ?_⟩
    simp only [LocalSt.step, Dict.step, hb k, blobOf]
    cases h1 : aget s.blobs k <;> cases h2 : aget s.metas k <;> simp
  | sync ps =>
    obtain ⟨h1, h2, h3, h4⟩ := syncAll_sim P hP ps s d.paths hop hp
    simp only [LocalSt.step, Dict.step]
    cases hs : s.syncAll ps with
    | mk s' b =>
      rw [hs] at h1 h2 h3 h4
      simp only at h1 h2 h3 h4
      subst h1
      refine ⟨⟨?_, ?_, h4⟩, rfl⟩
      · intro k; simp only [blobOf, h2, h3]; exact hb k
      · intro k; rw [h2, h3]; exact hm k
  | fetchPaths ps =>
    have := resolveAll_sim P hP s d.paths hp ps [] hop
    simp only [LocalSt.step, Dict.step, this]
    cases resolveAll d.paths ps [] <;> exact ⟨⟨hb, hm, hp⟩, rfl⟩

end Dds
