import DdsModel.Lru
/-! Lemmas for C12: the cache wrapper refines the dictionary whenever the wrapped store does. -/
namespace Dds
open List

theorem aget_mem {α} {l : List (String × α)} {k : String} {v : α} (h : aget l k = some v) : (k, v) ∈ l := by
  induction l with
  | nil => simp [aget] at h
  | cons a l ih =>
    obtain ⟨k', v'⟩ := a
    simp only [aget] at h
    split at h
    · rename_i hk; subst hk; simp at h; subst h; exact mem_cons_self
    · exact mem_cons_of_mem _ (ih h)

theorem aget_aset_eq {α} (l : List (String × α)) (k : String) (v : α) : aget (aset l k v) k = some v := by
  simp [aset, aget]

theorem aget_filter_ne {α} (l : List (String × α)) (k k' : String) (h : k' ≠ k) :
    aget (l.filter (fun kv => kv.1 ≠ k)) k' = aget l k' := by
  induction l with
  | nil => rfl
  | cons a l ih =>
    obtain ⟨k2, v2⟩ := a
    by_cases h2 : k2 = k
    · subst h2
      have : (filter (fun kv : String × α => decide (kv.1 ≠ k2)) ((k2, v2) :: l)) = filter (fun kv => decide (kv.1 ≠ k2)) l := by
        simp
      rw [this, ih]
      simp [aget, Ne.symm h]
    · have : (filter (fun kv : String × α => decide (kv.1 ≠ k)) ((k2, v2) :: l)) = (k2, v2) :: filter (fun kv => decide (kv.1 ≠ k)) l := by
        simp [h2]
      rw [this]
      simp only [aget, ih]

theorem aget_aset_ne {α} (l : List (String × α)) (k k' : String) (v : α) (h : k' ≠ k) :
    aget (aset l k v) k' = aget l k' := by
  simp only [aset, aget, Ne.symm h, if_false]
  exact aget_filter_ne l k k' h

variable {σ : Type} (R : σ → Dict → Prop) (ok : StoreOp → Prop) (istep : σ → StoreOp → σ × Out)

/-- the wrapped store simulates the dictionary on the admissible operations `ok`: related states stay
related and the outputs are equal -/
def Sim : Prop :=
  ∀ s d op, ok op → R s d → R (istep s op).1 (d.step op).1 ∧ (istep s op).2 = (d.step op).2

/-- the wrapper's state is related to a dictionary: the wrapped store is, and every cached entry is
present, with that value, in the dictionary -/
def LruRel (s : Lru σ) (d : Dict) : Prop := R s.inner d ∧ ∀ kv ∈ s.cache, aget d.blobs kv.1 = some kv.2

theorem cacheGet_spec {c : Cache} {k : Key} {v : Val} {c' : Cache} (h : cacheGet c k = some (v, c')) :
    (k, v) ∈ c ∧ (∀ kv ∈ c', kv ∈ c) ∧ c'.length ≤ c.length := by
  unfold cacheGet at h
  cases hg : aget c k with
  | none => simp [hg] at h
  | some v0 =>
    simp only [hg, Option.some.injEq, Prod.mk.injEq] at h
    obtain ⟨hv, hc⟩ := h
    subst hv hc
    have hm := aget_mem hg
    refine ⟨hm, ?_, ?_⟩
    · intro kv hkv
      rcases mem_append.mp hkv with h | h
      · exact (mem_filter.mp h).1
      · simp at h; subst h; exact hm
    · have : (filter (fun kv : Key × Val => decide (kv.1 ≠ k)) c).length < c.length := by
        apply length_filter_lt_length_iff_exists.mpr
        exact ⟨(k, v0), hm, by simp⟩
      simp only [length_append, length_cons, length_nil]; omega

theorem cachePut_spec (cap : Nat) (c : Cache) (k : Key) (v : Val) :
    (∀ kv ∈ cachePut cap c k v, kv ∈ c ∨ kv = (k, v)) ∧ (cachePut cap c k v).length ≤ cap := by
  unfold cachePut
  refine ⟨?_, ?_⟩
  · intro kv hkv
    have := mem_of_mem_drop hkv
    rcases mem_append.mp this with h | h
    · exact Or.inl (mem_filter.mp h).1
    · simp at h; exact Or.inr h
  · simp only [length_drop]; omega

theorem step_blobs_of_has (d : Dict) (k : Key) : (d.step (.has k)).1 = d := rfl
theorem step_blobs_of_fetch (d : Dict) (k : Key) : (d.step (.fetch k)).1 = d := rfl

theorem lru_step (hsim : Sim R ok istep) (hokhas : ∀ k, ok (.fetch k) → ok (.has k)) (cap : Nat)
    (s : Lru σ) (d : Dict) (op : StoreOp) (hop : ok op) (hrel : LruRel R s d) :
    LruRel R (Lru.step cap istep s op).1 (d.step op).1 ∧
    (Lru.step cap istep s op).2 = (d.step op).2 := by
  obtain ⟨hR, hinv⟩ := hrel
  cases op with
  | has k =>
    simp only [Lru.step]
    cases hg : cacheGet s.cache k with
    | some vc =>
      obtain ⟨v, c'⟩ := vc
      obtain ⟨hm, hsub, _⟩ := cacheGet_spec hg
      have := hinv _ hm
      exact ⟨⟨hR, fun kv hkv => hinv kv (hsub kv hkv)⟩, by simp [Dict.step, this]⟩
    | none =>
      obtain ⟨h1, h2⟩ := hsim s.inner d (.has k) hop hR
      exact ⟨⟨h1, fun kv hkv => hinv kv hkv⟩, h2⟩
  | fetch k =>
    simp only [Lru.step]
    cases hg : cacheGet s.cache k with
    | some vc =>
      obtain ⟨v, c'⟩ := vc
      obtain ⟨hm, hsub, _⟩ := cacheGet_spec hg
      have := hinv _ hm
      exact ⟨⟨hR, fun kv hkv => hinv kv (hsub kv hkv)⟩, by simp [Dict.step, this]⟩
    | none =>
      obtain ⟨h1, h2⟩ := hsim s.inner d (.fetch k) hop hR
      simp only [step_blobs_of_fetch] at h1
      simp only []
      have hout : (istep s.inner (.fetch k)).2 = .val ((aget d.blobs k).getD none) := h2
      cases hb : aget d.blobs k with
      | none =>
        rw [hb] at hout
        simp only [Option.getD_none] at hout
        rw [hout]
        simp only []
        obtain ⟨g1, g2⟩ := hsim (istep s.inner (.fetch k)).1 d (.has k) (hokhas k hop) h1
        simp only [step_blobs_of_has] at g1
        have g2' : (istep (istep s.inner (.fetch k)).1 (.has k)).2 = .bool false := by
          rw [g2]; simp [Dict.step, hb]
        rw [g2']
        exact ⟨⟨g1, fun kv hkv => hinv kv hkv⟩, by simp [Dict.step, hb]⟩
      | some v0 =>
        rw [hb] at hout
        simp only [Option.getD_some] at hout
        rw [hout]
        cases v0 with
        | some n =>
          simp only []
          refine ⟨⟨h1, ?_⟩, by simp [Dict.step, hb]⟩
          intro kv hkv
          rcases (cachePut_spec cap s.cache k (some n)).1 kv hkv with h | h
          · exact hinv kv h
          · subst h; exact hb
        | none =>
          simp only []
          obtain ⟨g1, g2⟩ := hsim (istep s.inner (.fetch k)).1 d (.has k) (hokhas k hop) h1
          simp only [step_blobs_of_has] at g1
          have g2' : (istep (istep s.inner (.fetch k)).1 (.has k)).2 = .bool true := by
            rw [g2]; simp [Dict.step, hb]
          rw [g2']
          refine ⟨⟨g1, ?_⟩, by simp [Dict.step, hb]⟩
          intro kv hkv
          rcases (cachePut_spec cap s.cache k none).1 kv hkv with h | h
          · exact hinv kv h
          · subst h; exact hb
  | store k v =>
    simp only [Lru.step]
    obtain ⟨h1, h2⟩ := hsim s.inner d (.store k v) hop hR
    refine ⟨⟨h1, ?_⟩, h2⟩
    intro kv hkv
    simp only [Dict.step]
    have hk := mem_filter.mp hkv
    have hne : kv.1 ≠ k := by simpa using hk.2
    rw [aget_aset_ne _ _ _ _ hne]
    exact hinv kv hk.1
  | sync ps =>
    simp only [Lru.step]
    obtain ⟨h1, h2⟩ := hsim s.inner d (.sync ps) hop hR
    exact ⟨⟨h1, fun kv hkv => by simpa [Dict.step] using hinv kv hkv⟩, h2⟩
  | fetchPaths ps =>
    simp only [Lru.step]
    obtain ⟨h1, h2⟩ := hsim s.inner d (.fetchPaths ps) hop hR
    refine ⟨⟨h1, ?_⟩, h2⟩
    intro kv hkv
    have : (d.step (.fetchPaths ps)).1 = d := by
      simp only [Dict.step]; split <;> rfl
    rw [this]
    exact hinv kv hkv

theorem lru_run (hsim : Sim R ok istep) (hokhas : ∀ k, ok (.fetch k) → ok (.has k)) (cap : Nat) :
    ∀ (ops : List StoreOp) (s : Lru σ) (d : Dict), (∀ op ∈ ops, ok op) → LruRel R s d →
    (runOps (Lru.step cap istep) s ops).2 = (runOps Dict.step d ops).2 ∧
    LruRel R (runOps (Lru.step cap istep) s ops).1 (runOps Dict.step d ops).1
  | [], s, d, _, h => ⟨rfl, h⟩
  | op :: ops, s, d, hok, h => by
    obtain ⟨hi, ho⟩ := lru_step R ok istep hsim hokhas cap s d op (hok op mem_cons_self) h
    obtain ⟨r1, r2⟩ := lru_run hsim hokhas cap ops _ _ (fun o ho' => hok o (mem_cons_of_mem _ ho')) hi
    simp only [runOps]
    exact ⟨by rw [ho, r1], r2⟩

theorem lru_step_bounded (cap : Nat) (s : Lru σ) (op : StoreOp) (h : s.cache.length ≤ cap) :
    (Lru.step cap istep s op).1.cache.length ≤ cap := by
  cases op with
  | has k =>
    simp only [Lru.step]
    cases hg : cacheGet s.cache k with
    | some vc => obtain ⟨v, c'⟩ := vc; have := (cacheGet_spec hg).2.2; simp only []; omega
    | none => exact h
  | fetch k =>
    simp only [Lru.step]
    cases hg : cacheGet s.cache k with
    | some vc => obtain ⟨v, c'⟩ := vc; have := (cacheGet_spec hg).2.2; simp only []; omega
    | none =>
      simp only []
      split
      · exact (cachePut_spec cap s.cache k _).2
      · split
        · exact (cachePut_spec cap s.cache k _).2
        · exact h
      · exact h
  | store k v =>
    simp only [Lru.step, cacheDrop]
    exact Nat.le_trans (length_filter_le _ _) h
  | sync ps => exact h
  | fetchPaths ps => exact h

end Dds
