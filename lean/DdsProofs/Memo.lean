import DdsProofs.EnvSound
import DdsProofs.EvalLemmas
/-!
# Memoised evaluation returns what plain execution returns (`memo_correct`)

`Sound S`: every blob of the store is the plain value of some chained, analysed call — in some version of the
code — whose return signature is the blob's key. `memo_correct`: one evaluation (`evalStep`) in any version
of the code against a sound store returns exactly what plain execution of that version returns (values and
exceptions), and leaves a sound store. By induction over histories (`history_correct`): whatever was
evaluated earlier against the same store — older versions of the code, other variable values — every
evaluation returns the plain value of the current code.
-/
namespace Dds
open List

/-! ## Sound stores -/

/-- every blob is the plain value of a chained, analysed call with that signature, run from a plain state that holds, at
every path the call loads, the blob of the signature the path resolved to -/
def Right (U : Universe) (m : Nat) (x : Nat) (Ω : Blobs) (k : Sg) (v : RVal) : Prop :=
  ∃ (W : World) (fn : Fn) (ctx : ArgCtx) (env : Env) (fuel : Nat) (refs : Refs) (stack : List String)
    (fis : FIS) (r : Refs) (p : PSt),
    U.world W ∧ W.extVersion = x ∧ U.fns fn ∧ Chain U m Ω W fn ctx env ∧
    analyse m W fuel refs stack fn ctx = .ok (fis, r) ∧ fis.retSig = k ∧ FIS.loadsOK Ω p.kept fis ∧
    (plainFn W fuel p fn env).1 = .ok v

def Sound (U : Universe) (m : Nat) (x : Nat) (S : PStore) : Prop :=
  ∀ k v, sgGet S.blobs k = some v → Right U m x S.blobs k v

theorem Right.mono {U : Universe} {m x : Nat} {Ω Ω' : Blobs} {k : Sg} {v : RVal} (h : Right U m x Ω k v)
    (he : ∀ k v, sgGet Ω k = some v → sgGet Ω' k = some v) : Right U m x Ω' k v := by
  obtain ⟨W, fn, ctx, env, fuel, refs, stack, fis, r, p, h1, h2, h3, h4, h5, h6, h7, h8⟩ := h
  exact ⟨W, fn, ctx, env, fuel, refs, stack, fis, r, p, h1, h2, h3, h4.mono he, h5, h6, loadsOK_mono he fis h7, h8⟩

/-- a signature has one right value -/
theorem Right.unique {U : Universe} {m x : Nat} {Ω : Blobs} {k : Sg} {v w : RVal} (h : Right U m x Ω k v)
    (h' : Right U m x Ω k w) : v = w := by
  obtain ⟨W, fn, ctx, env, fuel, refs, stack, fis, r, p, hW, hx, hU, hc, ha, hs, hl, hv⟩ := h
  obtain ⟨W0, fn0, ctx0, env0, fuel0, refs0, stack0, fis0, r0, p0, hW0, hx0, hU0, hc0, ha0, hs0, hl0, hv0⟩ := h'
  have := sig_sound_full U m hc hc0 hW hW0 (hx.trans hx0.symm) hU hU0 ha ha0 (hs.trans hs0.symm) p p0 hl hl0
  rw [hv, hv0] at this
  simpa using this

/-- the second store has every blob of the first, with the same value -/
def Extends (S S' : PStore) : Prop := ∀ k v, sgGet S.blobs k = some v → sgGet S'.blobs k = some v

theorem Extends.refl (S : PStore) : Extends S S := fun _ _ h => h
theorem Extends.trans {A B C : PStore} (h1 : Extends A B) (h2 : Extends B C) : Extends A C := fun k v h => h2 k v (h1 k v h)

theorem sgGet_filter_ne {α} (l : List (Sg × α)) (k k' : Sg) (h : k' ≠ k) :
    sgGet (l.filter (fun kv => kv.1 ≠ k)) k' = sgGet l k' := by
  induction l with
  | nil => rfl
  | cons a l ih =>
    obtain ⟨a1, a2⟩ := a
    by_cases ha : a1 = k
    · subst ha
      have : sgGet ((a1, a2) :: l) k' = sgGet l k' := by simp [sgGet, Ne.symm h]
      rw [this, ← ih]
      simp
    · have : ((a1, a2) :: l).filter (fun kv => kv.1 ≠ k) = (a1, a2) :: l.filter (fun kv => kv.1 ≠ k) := by
        simp [ha]
      rw [this]
      simp only [sgGet, ih]

theorem sgGet_storeBlob (S : PStore) (k k' : Sg) (v v' : RVal) (h : sgGet (S.storeBlob k v).blobs k' = some v') :
    (k' = k ∧ v' = v) ∨ sgGet S.blobs k' = some v' := by
  unfold PStore.storeBlob at h
  by_cases hn : S.noop = true
  · simp only [hn, if_true] at h; exact Or.inr h
  · simp only [hn] at h
    by_cases hk : k' = k
    · subst hk
      simp only [Bool.false_eq_true, if_false, sgGet, if_true, Option.some.injEq] at h
      exact Or.inl ⟨rfl, h.symm⟩
    · have : sgGet ((k, v) :: S.blobs.filter (fun kv => kv.1 ≠ k)) k' = sgGet (S.blobs.filter (fun kv => kv.1 ≠ k)) k' := by
        simp [sgGet, Ne.symm hk]
      simp only [Bool.false_eq_true, if_false] at h
      rw [this, sgGet_filter_ne _ _ _ hk] at h
      exact Or.inr h

/-- storing under a key that has no blob yet keeps every blob -/
theorem extends_storeBlob (S : PStore) (k : Sg) (v : RVal) (hnone : sgGet S.blobs k = none) : Extends S (S.storeBlob k v) := by
  intro k' v' h
  unfold PStore.storeBlob
  by_cases hn : S.noop = true
  · simp only [hn, if_true]; exact h
  · simp only [hn, Bool.false_eq_true, if_false]
    by_cases hk : k' = k
    · subst hk; rw [hnone] at h; cases h
    · have : sgGet ((k, v) :: S.blobs.filter (fun kv => kv.1 ≠ k)) k' = sgGet (S.blobs.filter (fun kv => kv.1 ≠ k)) k' := by
        simp [sgGet, Ne.symm hk]
      rw [this, sgGet_filter_ne _ _ _ hk]; exact h

/-- a sound store whose blobs are all in a bigger store: the witnesses hold with respect to the bigger store too -/
theorem Sound.witness_mono {U : Universe} {m x : Nat} {S S' : PStore} (hS : Sound U m x S) (he : Extends S S')
    {k : Sg} {v : RVal} (h : sgGet S.blobs k = some v) :
    ∃ (W : World) (fn : Fn) (ctx : ArgCtx) (env : Env) (fuel : Nat) (refs : Refs) (stack : List String)
      (fis : FIS) (r : Refs) (p : PSt),
      U.world W ∧ W.extVersion = x ∧ U.fns fn ∧ Chain U m S'.blobs W fn ctx env ∧
      analyse m W fuel refs stack fn ctx = .ok (fis, r) ∧ fis.retSig = k ∧ FIS.loadsOK S'.blobs p.kept fis ∧
      (plainFn W fuel p fn env).1 = .ok v := by
  obtain ⟨W, fn, ctx, env, fuel, refs, stack, fis, r, p, h1, h2, h3, h4, h5, h6, h7, h8⟩ := hS k v h
  exact ⟨W, fn, ctx, env, fuel, refs, stack, fis, r, p, h1, h2, h3, h4.mono he, h5, h6, loadsOK_mono he fis h7, h8⟩

/-- storing the plain value of a chained, analysed call under its (so far absent) signature keeps the store sound -/
theorem Sound.storeBlob {U : Universe} {m x : Nat} {S : PStore} (hS : Sound U m x S)
    {W : World} {fn : Fn} {ctx : ArgCtx} {env : Env} {fuel : Nat} {refs : Refs} {stack : List String}
    {fis : FIS} {r : Refs} {p : PSt} {v : RVal}
    (hW : U.world W) (hx : W.extVersion = x) (hU : U.fns fn) (hc : Chain U m S.blobs W fn ctx env)
    (ha : analyse m W fuel refs stack fn ctx = .ok (fis, r)) (hl : FIS.loadsOK S.blobs p.kept fis)
    (hv : (plainFn W fuel p fn env).1 = .ok v) (hnone : sgGet S.blobs fis.retSig = none) :
    Sound U m x (S.storeBlob fis.retSig v) := by
  have he := extends_storeBlob S fis.retSig v hnone
  intro k' v' h
  rcases sgGet_storeBlob S _ _ _ _ h with ⟨rfl, rfl⟩ | h'
  · exact ⟨W, fn, ctx, env, fuel, refs, stack, fis, r, p, hW, hx, hU, hc.mono he, ha, rfl, loadsOK_mono he fis hl, hv⟩
  · exact hS.witness_mono he h'

/-- **a served blob is the right value**: in a sound store, the blob under the signature of the current call is the
plain value of the current call in the current version of the code, from any plain state that holds the blobs of the paths
the call loads -/
theorem served_right {U : Universe} {m x : Nat} {S : PStore} (hS : Sound U m x S)
    {W : World} {fn : Fn} {ctx : ArgCtx} {env : Env} {fuel : Nat} {refs : Refs} {stack : List String}
    {fis : FIS} {r : Refs} {v : RVal}
    (hW : U.world W) (hx : W.extVersion = x) (hU : U.fns fn) (hc : Chain U m S.blobs W fn ctx env)
    (ha : analyse m W fuel refs stack fn ctx = .ok (fis, r)) (hb : sgGet S.blobs fis.retSig = some v) (p : PSt)
    (hl : FIS.loadsOK S.blobs p.kept fis) :
    (plainFn W fuel p fn env).1 = .ok v := by
  obtain ⟨W0, fn0, ctx0, env0, fuel0, refs0, stack0, fis0, r0, p0, hW0, hx0, hU0, hc0, ha0, hs0, hl0, hv0⟩ := hS _ _ hb
  rw [← hv0]
  exact sig_sound_full U m hc hc0 hW hW0 (hx.trans hx0.symm) hU hU0 ha ha0 hs0.symm p p0 hl hl0

/-! ## The path map fixed by the analysis covers every kept call of the tree -/

mutual
def FIS.pathsOK (paths : List (String × Sg)) : FIS → Prop
  | .mk _ s p subs _ => (match p with | some q => aget paths q = some s | none => True) ∧ FIS.pathsOKL paths subs
def FIS.pathsOKL (paths : List (String × Sg)) : List FIS → Prop
  | [] => True
  | f :: fs => FIS.pathsOK paths f ∧ FIS.pathsOKL paths fs
end

theorem aget_append_none {α} (l : List (String × α)) (k k' : String) (v : α) (h : aget l k = none) :
    aget (l ++ [(k, v)]) k' = if k' = k then some v else aget l k' := by
  induction l with
  | nil => simp [aget, eq_comm]
  | cons a l ih =>
    obtain ⟨a1, a2⟩ := a
    simp only [aget] at h
    by_cases ha : a1 = k
    · simp [ha] at h
    · simp only [ha, if_false] at h
      simp only [cons_append, aget]
      by_cases hk : a1 = k'
      · subst hk; simp [ha]
      · simp only [hk, if_false]; exact ih h

theorem odSet_ok {acc acc' : List (String × Sg)} {k : String} {v : Sg} (h : odSet acc k v = .ok acc') :
    aget acc' k = some v ∧ ∀ k' v', aget acc k' = some v' → aget acc' k' = some v' := by
  unfold odSet at h
  cases hg : aget acc k with
  | some v0 =>
    simp only [hg] at h
    by_cases hv : v0 = v
    · simp only [hv, if_true, Except.ok.injEq] at h
      subst h; subst hv
      exact ⟨hg, fun _ _ h => h⟩
    · simp [hv] at h
  | none =>
    simp only [hg, Except.ok.injEq] at h
    subst h
    refine ⟨by rw [aget_append_none _ _ _ _ hg]; simp, ?_⟩
    intro k' v' h'
    rw [aget_append_none _ _ _ _ hg]
    by_cases hk : k' = k
    · subst hk; rw [hg] at h'; cases h'
    · simp [hk, h']

mutual
theorem allStorePaths_ok : ∀ (f : FIS) (acc paths : List (String × Sg)), allStorePaths acc f = .ok paths →
    (∀ k v, aget acc k = some v → aget paths k = some v) ∧
    (∀ final, (∀ k v, aget paths k = some v → aget final k = some v) → FIS.pathsOK final f)
  | .mk n s p subs loads, acc, paths, h => by
    unfold allStorePaths at h
    cases p with
    | none =>
      simp only at h
      obtain ⟨m1, m2⟩ := allStorePathsL_ok subs acc paths h
      exact ⟨m1, fun final hf => ⟨trivial, m2 final hf⟩⟩
    | some q =>
      simp only at h
      cases ho : odSet acc q s with
      | error e => simp [ho] at h
      | ok acc' =>
        simp only [ho] at h
        obtain ⟨o1, o2⟩ := odSet_ok ho
        obtain ⟨m1, m2⟩ := allStorePathsL_ok subs acc' paths h
        exact ⟨fun k v hk => m1 k v (o2 k v hk), fun final hf => ⟨hf _ _ (m1 _ _ o1), m2 final hf⟩⟩
theorem allStorePathsL_ok : ∀ (fs : List FIS) (acc paths : List (String × Sg)), allStorePathsL acc fs = .ok paths →
    (∀ k v, aget acc k = some v → aget paths k = some v) ∧
    (∀ final, (∀ k v, aget paths k = some v → aget final k = some v) → FIS.pathsOKL final fs)
  | [], acc, paths, h => by
    simp only [allStorePathsL, Except.ok.injEq] at h
    subst h
    exact ⟨fun _ _ h => h, fun _ _ => trivial⟩
  | f :: fs, acc, paths, h => by
    unfold allStorePathsL at h
    cases hf : allStorePaths acc f with
    | error e => simp [hf] at h
    | ok acc' =>
      simp only [hf] at h
      obtain ⟨a1, a2⟩ := allStorePaths_ok f acc acc' hf
      obtain ⟨b1, b2⟩ := allStorePathsL_ok fs acc' paths h
      exact ⟨fun k v hk => b1 k v (a1 k v hk),
        fun final hfin => ⟨a2 final (fun k v hk => hfin k v (b1 k v hk)), b2 final hfin⟩⟩
end

theorem pathsOKL_mem {paths : List (String × Sg)} : ∀ {fs : List FIS} {f : FIS}, FIS.pathsOKL paths fs → f ∈ fs →
    FIS.pathsOK paths f
  | g :: gs, f, h, hm => by
    simp only [FIS.pathsOKL] at h
    rcases mem_cons.mp hm with e | e
    · subst e; exact h.1
    · exact pathsOKL_mem h.2 e

/-! ## Calls whose arguments are all known to the analysis -/

theorem zipArgs_none (results : List RVal) (env : Env) : ∀ (args : List AstArg) (rtA : List (Option RtExpr)) (i : Nat),
    args[i]? = none → (zipArgs results env args rtA)[i]? = none
  | [], _, _, _ => by simp [zipArgs]
  | a :: as, [], i, h => by
    cases i with
    | zero => simp at h
    | succ i => simp only [getElem?_cons_succ] at h; simp [zipArgs, zipArgs_none results env as [] i h]
  | a :: as, r :: rs, i, h => by
    cases i with
    | zero => simp at h
    | succ i => simp only [getElem?_cons_succ] at h; simp [zipArgs, zipArgs_none results env as rs i h]

theorem zipArgs_const (results : List RVal) (env : Env) (v : PyVal) :
    ∀ (args : List AstArg) (rtA : List (Option RtExpr)) (i : Nat),
    args[i]? = some (.const v) → (zipArgs results env args rtA)[i]? = some (.py v)
  | [], _, _, h => by simp at h
  | a :: as, [], i, h => by
    cases i with
    | zero => simp at h; subst h; simp [zipArgs, argValue]
    | succ i => simp only [getElem?_cons_succ] at h; simp [zipArgs, zipArgs_const results env v as [] i h]
  | a :: as, r :: rs, i, h => by
    cases i with
    | zero => simp at h; subst h; simp [zipArgs, argValue]
    | succ i => simp only [getElem?_cons_succ] at h; simp [zipArgs, zipArgs_const results env v as rs i h]

theorem zipKw_none (results : List RVal) (env : Env) (n : String) :
    ∀ (kwargs : List (String × AstArg)) (rtK : List (String × Option RtExpr)),
    lookupKw n kwargs = none → lookupKw n (zipKw results env kwargs rtK) = none
  | [], _, _ => by simp [zipKw, lookupKw]
  | (k, a) :: as, [], h => by
    simp only [lookupKw] at h
    by_cases hk : k = n
    · simp [hk] at h
    · simp only [hk, if_false] at h
      simp [zipKw, lookupKw, hk, zipKw_none results env n as [] h]
  | (k, a) :: as, (_, r) :: rs, h => by
    simp only [lookupKw] at h
    by_cases hk : k = n
    · simp [hk] at h
    · simp only [hk, if_false] at h
      simp [zipKw, lookupKw, hk, zipKw_none results env n as rs h]

theorem zipKw_const (results : List RVal) (env : Env) (n : String) (v : PyVal) :
    ∀ (kwargs : List (String × AstArg)) (rtK : List (String × Option RtExpr)),
    lookupKw n kwargs = some (.const v) → lookupKw n (zipKw results env kwargs rtK) = some (.py v)
  | [], _, h => by simp [lookupKw] at h
  | (k, a) :: as, [], h => by
    simp only [lookupKw] at h
    by_cases hk : k = n
    · simp only [hk, if_true, Option.some.injEq] at h; subst h; simp [zipKw, lookupKw, hk, argValue]
    · simp only [hk, if_false] at h
      simp [zipKw, lookupKw, hk, zipKw_const results env n v as [] h]
  | (k, a) :: as, (_, r) :: rs, h => by
    simp only [lookupKw] at h
    by_cases hk : k = n
    · simp only [hk, if_true, Option.some.injEq] at h; subst h; simp [zipKw, lookupKw, hk, argValue]
    · simp only [hk, if_false] at h
      simp [zipKw, lookupKw, hk, zipKw_const results env n v as rs h]

theorem lookupKw_mem {α} {n : String} {a : α} : ∀ {l : List (String × α)}, lookupKw n l = some a → (n, a) ∈ l
  | (k, b) :: l, h => by
    simp only [lookupKw] at h
    by_cases hk : k = n
    · simp only [hk, if_true, Option.some.injEq] at h; subst h; subst hk; exact mem_cons_self
    · simp only [hk, if_false] at h; exact mem_cons_of_mem _ (lookupKw_mem h)

theorem processArg_some {m : Nat} {a : AstArg} {h : Sg} (e : processArg m a = .ok (some h)) :
    ∃ v, a = .const v ∧ ddsHash m v = .ok h := by
  cases a with
  | other => simp [processArg] at e
  | const v =>
    unfold processArg at e
    obtain ⟨h', e1, e2⟩ := bind_ok e
    simp only [pure, Except.pure, Except.ok.injEq, Option.some.injEq] at e2
    subst e2
    exact ⟨v, rfl, liftHash_ok e1⟩

/-- the value run-time binding gives a parameter: positional, keyword, default -/
def pick (p : Param) (pos : List RVal) (kw : List (String × RVal)) (idx : Nat) : Option RVal :=
  match pos[idx]? with
  | some v => some v
  | none => match lookupKw p.name kw with
    | some v => some v
    | none => p.default.map RVal.py

theorem bindRun_cons (p : Param) (rest : List Param) (pos : List RVal) (kw : List (String × RVal)) (idx : Nat) :
    bindRun (p :: rest) pos kw idx =
      match pick p pos kw idx, bindRun rest pos kw (idx + 1) with
      | some v, some env => some ((p.name, v) :: env)
      | _, _ => none := by
  rw [bindRun]; rfl

theorem argAst_pick {m : Nat} {args : List AstArg} {kwargs : List (String × AstArg)} {idx : Nat} {p : Param} {h : Sg}
    (results : List RVal) (env : Env) (rtA : List (Option RtExpr)) (rtK : List (String × Option RtExpr))
    (hkind : p.kind = .posOrKw) (e : argAst m args kwargs idx p = .ok (some h)) :
    ∃ v, ddsHash m v = .ok h ∧ pick p (zipArgs results env args rtA) (zipKw results env kwargs rtK) idx = some (.py v) ∧
      (AstArg.const v ∈ args ∨ (∃ n, (n, AstArg.const v) ∈ kwargs) ∨ p.default = some v) := by
  unfold argAst at e
  simp only [hkind, ne_eq, not_true_eq_false, false_and, if_false, reduceCtorEq] at e
  · cases ha : args[idx]? with
    | some a =>
      simp only [ha] at e
      obtain ⟨v, rfl, hv⟩ := processArg_some e
      refine ⟨v, hv, ?_, Or.inl (mem_of_getElem? ha)⟩
      simp [pick, zipArgs_const results env v args rtA idx ha]
    | none =>
      simp only [ha] at e
      cases hk : lookupKw p.name kwargs with
      | some a =>
        simp only [hk] at e
        obtain ⟨v, rfl, hv⟩ := processArg_some e
        refine ⟨v, hv, ?_, Or.inr (Or.inl ⟨_, lookupKw_mem hk⟩)⟩
        simp [pick, zipArgs_none results env args rtA idx ha, zipKw_const results env p.name v kwargs rtK hk]
      | none =>
        simp only [hk] at e
        cases hd : p.default with
        | none => simp [hd] at e
        | some d =>
          simp only [hd] at e
          obtain ⟨h', e1, e2⟩ := bind_ok e
          simp only [pure, Except.pure, Except.ok.injEq, Option.some.injEq] at e2
          subst e2
          refine ⟨d, liftHash_ok e1, ?_, Or.inr (Or.inr rfl)⟩
          simp [pick, zipArgs_none results env args rtA idx ha, zipKw_none results env p.name kwargs rtK hk, hd]

theorem allSome_cons_some {α β} {a : α} {b : Option β} {xs : List (α × Option β)} {kvs : List (α × β)}
    (h : allSome ((a, b) :: xs) = some kvs) : ∃ b' kvs', b = some b' ∧ allSome xs = some kvs' := by
  cases b with
  | none => simp [allSome] at h
  | some b' =>
    simp only [allSome] at h
    cases hx : allSome xs with
    | none => simp [hx] at h
    | some kvs' => exact ⟨b', kvs', rfl, rfl⟩

theorem plainParams_mem {ps : List Param} (h : plainParams ps = true) : ∀ p ∈ ps, p.kind = .posOrKw := by
  intro p hp
  simpa using (List.all_eq_true.mp h) p hp

/-- all arguments known to the analysis: the parameter values are literals / defaults, hashed in the signature -/
theorem const_case (U : Universe) {m : Nat} {args : List AstArg} {kwargs : List (String × AstArg)}
    (results : List RVal) (env : Env) (rtA : List (Option RtExpr)) (rtK : List (String × Option RtExpr))
    (hargs : ∀ v, AstArg.const v ∈ args → U.avals v) (hkw : ∀ n v, (n, AstArg.const v) ∈ kwargs → U.avals v) :
    ∀ (ps : List Param) (idx : Nat) (named : List (String × Option Sg)) (kvs : List (String × Sg)) (env' : Env),
      (∀ p ∈ ps, ∀ d, p.default = some d → U.avals d) → (∀ p ∈ ps, p.kind = .posOrKw) →
      getArgCtxAstFrom m args kwargs idx ps = .ok named → allSome named = some kvs →
      bindRun ps (zipArgs results env args rtA) (zipKw results env kwargs rtK) idx = some env' →
      ∃ vals : Vals, named = vals.named ∧ env' = vals.env ∧ vals.map (fun x => x.1) = ps.map Param.name ∧
        ∀ x ∈ vals, ddsHash m x.2.1 = .ok x.2.2 ∧ U.avals x.2.1
  | [], idx, named, kvs, env', _, _, hn, _, hb => by
    simp only [getArgCtxAstFrom, Except.ok.injEq] at hn
    rw [bindRun] at hb
    simp only [Option.some.injEq] at hb
    subst hn; subst hb
    exact ⟨[], rfl, rfl, rfl, fun _ h => absurd h (by simp)⟩
  | p :: ps, idx, named, kvs, env', hd, hkinds, hn, hall, hb => by
    unfold getArgCtxAstFrom at hn
    obtain ⟨h, e1, hn⟩ := bind_ok hn
    obtain ⟨rest, e2, hn⟩ := bind_ok hn
    simp only [pure, Except.pure, Except.ok.injEq] at hn
    subst hn
    obtain ⟨hh, kvs', rfl, hall'⟩ := allSome_cons_some hall
    obtain ⟨v, hv, hpick, hsrc⟩ := argAst_pick results env rtA rtK (hkinds p mem_cons_self) e1
    rw [bindRun_cons, hpick] at hb
    cases hr : bindRun ps (zipArgs results env args rtA) (zipKw results env kwargs rtK) (idx + 1) with
    | none => simp [hr] at hb
    | some envr =>
      simp only [hr, Option.some.injEq] at hb
      subst hb
      obtain ⟨vals, r1, r2, r3, r4⟩ := const_case U results env rtA rtK hargs hkw ps (idx + 1) rest kvs' envr
        (fun q hq => hd q (mem_cons_of_mem _ hq)) (fun q hq => hkinds q (mem_cons_of_mem _ hq)) e2 hall' hr
      have hval : U.avals v := by
        rcases hsrc with h1 | ⟨n, h2⟩ | h3
        · exact hargs v h1
        · exact hkw n v h2
        · exact hd p mem_cons_self v h3
      refine ⟨(p.name, v, hh) :: vals, ?_, ?_, ?_, ?_⟩
      · simp [Vals.named, r1]
      · simp [Vals.env, r2]
      · simp [r3]
      · intro x hx
        rcases mem_cons.mp hx with rfl | hx
        · exact ⟨hv, hval⟩
        · exact r4 x hx

/-! ## Running under dds, one item at a time -/

/-- a call made while running under dds: find, bind, then `keepExec` (explicit keep) or `callExec` -/
def runCall (W : World) (rq : List (String × Sg)) (rec : RunRec) (st : XSt) (f : String) (pos : List RVal)
    (kw : List (String × RVal)) (kp : Option String) : XRes :=
  match W.find f with
  | none => (.error (.dds .objectNotFound), st)
  | some g => match bindRun g.params pos kw 0 with
    | none => (.error (.exc "TypeError" f), st)
    | some env' => match kp with
      | some path => keepExec rq rec st path g env'
      | none => callExec rq rec st g env'

/-- the result of one item when running under dds (the `let r` of `runItems`) -/
def runItemRes (W : World) (rq : List (String × Sg)) (rec : RunRec) (env : Env) (st : XSt) (results : List RVal) : Item → XRes
  | .call f _ => runCall W rq rec st f [] [] none
  | .ref f _ => runCall W rq rec st f [] [] none
  | .callArgs f args kwargs rtA rtK _ => runCall W rq rec st f (zipArgs results env args rtA) (zipKw results env kwargs rtK) none
  | .keep path f args kwargs rtA rtK _ =>
    runCall W rq rec st f (zipArgs results env args rtA) (zipKw results env kwargs rtK) (some path)
  | .load path _ =>
    match (aget rq path).orElse (fun _ => aget st.store.paths path) with
    | none => (.error (.dds .missingPaths), st)
    | some key => (.ok ((sgGet st.store.blobs key).getD (.py .none)), st)
  | .evalCall _ _ => (.error (.dds .evalInEval), st)

theorem runItems_cons (W : World) (rq : List (String × Sg)) (rec : RunRec) (fn : Fn) (env : Env) (st : XSt)
    (results : List RVal) (it : Item) (its : List Item) :
    runItems W (some rq) rec fn env st results (it :: its) =
      match runItemRes W rq rec env st results it with
      | (.ok v, st') => runItems W (some rq) rec fn env st' (results ++ [v]) its
      | (.error e, st') => (.error e, st') := by
  cases it with
  | call f l =>
    simp only [runItems, runItemRes, runCall]
    cases W.find f with
    | none => rfl
    | some g => cases bindRun g.params [] [] 0 <;> rfl
  | ref f l =>
    simp only [runItems, runItemRes, runCall]
    cases W.find f with
    | none => rfl
    | some g => cases bindRun g.params [] [] 0 <;> rfl
  | callArgs f args kwargs rtA rtK l =>
    simp only [runItems, runItemRes, runCall]
    cases W.find f with
    | none => rfl
    | some g => cases bindRun g.params (zipArgs results env args rtA) (zipKw results env kwargs rtK) 0 <;> rfl
  | keep path f args kwargs rtA rtK l =>
    simp only [runItems, runItemRes, runCall]
    cases W.find f with
    | none => rfl
    | some g => cases bindRun g.params (zipArgs results env args rtA) (zipKw results env kwargs rtK) 0 <;> rfl
  | load path l => rfl
  | evalCall f l => rfl

/-! ## Appending one item -/

theorem visitItems_snoc {m : Nat} {W : World} {rec : Analyse} {fn : Fn} {isig : Sg} {stack : List String} :
    ∀ {pre : List Item} {s0 s t : VisitSt} {it : Item}, visitItems m W rec fn isig stack s0 pre = .ok s →
      visitItem m W rec fn isig stack s it = .ok t → visitItems m W rec fn isig stack s0 (pre ++ [it]) = .ok t
  | [], s0, s, t, it, h1, h2 => by
    simp only [visitItems, Except.ok.injEq] at h1
    subst h1
    simp only [nil_append, visitItems, h2, ok_bind]
  | a :: pre, s0, s, t, it, h1, h2 => by
    obtain ⟨u, hu, h1'⟩ := visitItems_cons_inv h1
    simp only [cons_append, visitItems, hu, ok_bind]
    exact visitItems_snoc h1' h2

theorem plainItems_snoc (W : World) (rec : PlainRec) (env : Env) :
    ∀ (pre : List Item) (p0 q q' : PSt) (acc results : List RVal) (it : Item) (v : RVal),
      plainItems W rec env p0 acc pre = (.ok results, q) → plainItemRes W rec env q results it = (.ok v, q') →
      plainItems W rec env p0 acc (pre ++ [it]) = (.ok (results ++ [v]), q')
  | [], p0, q, q', acc, results, it, v, h1, h2 => by
    simp only [plainItems, Prod.mk.injEq, Except.ok.injEq] at h1
    obtain ⟨rfl, rfl⟩ := h1
    rw [nil_append, plainItems_cons, h2]
    rfl
  | a :: pre, p0, q, q', acc, results, it, v, h1, h2 => by
    rw [plainItems_cons] at h1
    rw [cons_append, plainItems_cons]
    cases hr : plainItemRes W rec env p0 acc a with
    | mk r st' =>
      rw [hr] at h1
      cases r with
      | error e => simp at h1
      | ok w =>
        simp only at h1 ⊢
        exact plainItems_snoc W rec env pre st' q q' _ results it v h1 h2

/-! ## Frames: what the analysis and plain execution leave alone

`paths` is the path map of the evaluation. A path that is not in the map is *external*: no call of the evaluation is kept
there. The analysis never changes what an external path resolves to, and plain execution never changes what the plain state
holds at an external path. -/

theorem pathsOK_iff (paths : List (String × Sg)) (f : FIS) :
    FIS.pathsOK paths f ↔ (∀ q, f.storePath = some q → aget paths q = some f.retSig) ∧ FIS.pathsOKL paths f.subs := by
  obtain ⟨n, s, p, subs, l⟩ := f
  simp only [FIS.pathsOK, FIS.storePath, FIS.retSig, FIS.subs]
  cases p with
  | none => simp
  | some q => simp

theorem analyse_storePath {m : Nat} {W : World} {fuel : Nat} {refs : Refs} {stack : List String} {fn : Fn} {ctx : ArgCtx}
    {fis : FIS} {r : Refs} (h : analyse m W fuel refs stack fn ctx = .ok (fis, r)) : fis.storePath = fn.storePath := by
  cases fuel with
  | zero => exact absurd h analyse_zero
  | succ k =>
    obtain ⟨_, _, _, _, _, _, a⟩ := analyse_inv h
    rw [a.hfis]; rfl

theorem mem_final_inters {m : Nat} {W : World} {rec : Analyse} {fn : Fn} {isig : Sg} {stack : List String}
    {its : List Item} {t sfin : VisitSt} (hr : visitItems m W rec fn isig stack t its = .ok sfin) {f : FIS}
    (hf : f ∈ t.inters) : f ∈ sfin.inters := by
  obtain ⟨d, hd⟩ := visitItems_grows hr
  rw [hd]; exact mem_append_left _ hf

/-- an explicit `keep` is never applied to a data function (which is kept at its own path already) -/
def World.keepsPlain (W : World) : Prop :=
  ∀ f ∈ W.funs, ∀ it ∈ f.items, ∀ path g args kwargs rtA rtK l, it = Item.keep path g args kwargs rtA rtK l →
    ∀ h, W.find g = some h → h.storePath = none

def External (paths : List (String × Sg)) (p : String) : Prop := aget paths p = none

/-- `AFrame fuel`: the analysis of a call leaves every external path resolved as it was -/
def AFrame (m : Nat) (W : World) (paths : List (String × Sg)) (fuel : Nat) : Prop :=
  ∀ (refs : Refs) (stack : List String) (fn : Fn) (ctx : ArgCtx) (fis : FIS) (r : Refs), fn ∈ W.funs →
    analyse m W fuel refs stack fn ctx = .ok (fis, r) → FIS.pathsOK paths fis →
    ∀ p, External paths p → aget r p = aget refs p

theorem visitItems_refs_frame {m : Nat} {W : World} {paths : List (String × Sg)} {fuel : Nat} (hIH : AFrame m W paths fuel)
    (hkp : W.keepsPlain) (fn : Fn) (hfn : fn ∈ W.funs) (isig : Sg) (stack : List String) :
    ∀ (its : List Item), (∀ it ∈ its, it ∈ fn.items) → ∀ (s sfin : VisitSt),
      visitItems m W (analyse m W fuel) fn isig stack s its = .ok sfin → FIS.pathsOKL paths sfin.inters →
      ∀ p, External paths p → aget sfin.refs p = aget s.refs p
  | [], _, s, sfin, h, _, p, _ => by simp [visitItems] at h; subst h; rfl
  | it :: its, hits, s, sfin, h, hok, p, hp => by
    obtain ⟨t, hv, hr⟩ := visitItems_cons_inv h
    rw [visitItems_refs_frame hIH hkp fn hfn isig stack its (fun x hx => hits x (mem_cons_of_mem _ hx)) t sfin hr hok p hp]
    cases it with
    | call f l =>
      obtain ⟨g, c, named, fis, rf, hstep, e⟩ := plain_inv (by simpa [visitItem] using hv)
      have hin : fis ∈ sfin.inters := mem_final_inters hr (by rw [e]; simp)
      rw [e]; exact hIH _ _ _ _ _ _ (List.mem_of_find?_eq_some hstep.find) hstep.sub (pathsOKL_mem hok hin) p hp
    | callArgs f a k ra rk l =>
      obtain ⟨g, c, named, fis, rf, hstep, e⟩ := plain_inv (by simpa [visitItem] using hv)
      have hin : fis ∈ sfin.inters := mem_final_inters hr (by rw [e]; simp)
      rw [e]; exact hIH _ _ _ _ _ _ (List.mem_of_find?_eq_some hstep.find) hstep.sub (pathsOKL_mem hok hin) p hp
    | ref f l =>
      rcases ref_inv hv with ⟨_, e⟩ | ⟨_, g, c, named, fis, rf, hstep, e⟩
      · rw [e]
      · have hin : fis ∈ sfin.inters := mem_final_inters hr (by rw [e]; simp)
        rw [e]; exact hIH _ _ _ _ _ _ (List.mem_of_find?_eq_some hstep.find) hstep.sub (pathsOKL_mem hok hin) p hp
    | keep path f a k ra rk l =>
      obtain ⟨g, c, named, fis, rf, hstep, _, e⟩ := keep_inv hv
      have hin : fis.withPath path ∈ sfin.inters := mem_final_inters hr (by rw [e]; simp)
      obtain ⟨k1, k2⟩ := (pathsOK_iff paths _).mp (pathsOKL_mem hok hin)
      have hgp : g.storePath = none := hkp fn hfn _ (hits _ mem_cons_self) path f a k ra rk l rfl g hstep.find
      have hfok : FIS.pathsOK paths fis := by
        refine (pathsOK_iff paths fis).mpr ⟨fun q hq => ?_, k2⟩
        rw [analyse_storePath hstep.sub, hgp] at hq; cases hq
      have hne : p ≠ path := by
        intro e'; subst e'
        have := k1 p rfl
        simp only [External] at hp
        rw [hp] at this; cases this
      rw [e]
      simp only
      rw [aget_aset_ne _ _ _ _ hne]
      exact hIH _ _ _ _ _ _ (List.mem_of_find?_eq_some hstep.find) hstep.sub hfok p hp
    | load path l => rw [load_inv hv]
    | evalCall f l => simp [visitItem] at hv

theorem aframe (m : Nat) (W : World) (paths : List (String × Sg)) (hkp : W.keepsPlain) : ∀ fuel, AFrame m W paths fuel
  | 0 => by
    intro refs stack fn ctx fis r _ h
    exact absurd h analyse_zero
  | k + 1 => by
    intro refs stack fn ctx fis r hfn h hok p hp
    obtain ⟨ev, io, sv, b, d, ret, a⟩ := analyse_inv h
    obtain ⟨k1, k2⟩ := (pathsOK_iff paths fis).mp hok
    have hsub : fis.subs = sv.inters := by rw [a.hfis]; rfl
    rw [hsub] at k2
    have hfr := visitItems_refs_frame (aframe m W paths hkp k) hkp fn hfn _ stack fn.items (fun _ h => h) _ sv a.hvisit k2 p hp
    rw [a.hrefs]
    cases hsp : fn.storePath with
    | none => exact hfr
    | some q =>
      simp only
      have hne : p ≠ q := by
        intro e'; subst e'
        have := k1 p (by rw [a.hfis]; exact hsp)
        simp only [External] at hp
        rw [hp] at this; cases this
      rw [aget_aset_ne _ _ _ _ hne]; exact hfr

/-- the plain state is unchanged at every external path -/
def KFrame (paths : List (String × Sg)) (q q' : PSt) : Prop := ∀ p, External paths p → aget q'.kept p = aget q.kept p

theorem KFrame.refl (paths : List (String × Sg)) (q : PSt) : KFrame paths q q := fun _ _ => rfl
theorem KFrame.trans {paths : List (String × Sg)} {a b c : PSt} (h1 : KFrame paths a b) (h2 : KFrame paths b c) :
    KFrame paths a c := fun p hp => (h2 p hp).trans (h1 p hp)

/-- `PFrame fuel`: plain execution of an analysed call changes the plain state only at paths of the path map -/
def PFrame (m : Nat) (W : World) (paths : List (String × Sg)) (fuel : Nat) : Prop :=
  ∀ (refs : Refs) (stack : List String) (fn : Fn) (ctx : ArgCtx) (env : Env) (fis : FIS) (r : Refs) (q : PSt),
    analyse m W fuel refs stack fn ctx = .ok (fis, r) → FIS.pathsOKL paths fis.subs →
    KFrame paths q (plainFn W fuel q fn env).2

/-- the functions already referenced by name in this body: analysed, their kept paths in the path map -/
def SeenA (m : Nat) (W : World) (paths : List (String × Sg)) (fuel : Nat) (seen : List String) : Prop :=
  ∀ f ∈ seen, ∃ (g : Fn) (ctx : ArgCtx) (fis : FIS) (rf refs0 : Refs) (stack0 : List String),
    W.find f = some g ∧ analyse m W fuel refs0 stack0 g ctx = .ok (fis, rf) ∧ FIS.pathsOK paths fis

theorem callRes_frame {m : Nat} {W : World} {paths : List (String × Sg)} {fuel : Nat} (hIH : PFrame m W paths fuel)
    {f : String} {g : Fn} {ctx : ArgCtx} {refs : Refs} {stack : List String} {fis : FIS} {rf : Refs}
    (hfind : W.find f = some g) (ha : analyse m W fuel refs stack g ctx = .ok (fis, rf))
    (hsubs : FIS.pathsOKL paths fis.subs) (kp : Option String) (df : Bool)
    (hkey : ∀ path, (kp = some path ∨ (kp = none ∧ df = true ∧ g.storePath = some path)) → aget paths path ≠ none)
    (q : PSt) (pos : List RVal) (kw : List (String × RVal)) :
    KFrame paths q (callRes W (plainFn W fuel) q f pos kw kp df).2 := by
  simp only [callRes, hfind]
  cases bindRun g.params pos kw 0 with
  | none => exact KFrame.refl _ _
  | some env' =>
    simp only
    have h1 := hIH refs stack g ctx env' fis rf q ha hsubs
    cases hr : plainFn W fuel q g env' with
    | mk v st' =>
      rw [hr] at h1
      cases v with
      | error e => exact h1
      | ok v =>
        simp only
        have hset : ∀ path, aget paths path ≠ none → KFrame paths q { st' with kept := aset st'.kept path v } := by
          intro path hpath p hp
          have hne : p ≠ path := by
            intro e'; subst e'; exact hpath hp
          simp only
          rw [aget_aset_ne _ _ _ _ hne]; exact h1 p hp
        cases kp with
        | some path => exact hset path (hkey path (Or.inl rfl))
        | none =>
          cases df with
          | false => exact h1
          | true =>
            simp only [if_true]
            cases hsp : g.storePath with
            | none => exact h1
            | some path => exact hset path (hkey path (Or.inr ⟨rfl, rfl, hsp⟩))

theorem plainItems_frame {m : Nat} {W : World} {paths : List (String × Sg)} {fuel : Nat} (hIH : PFrame m W paths fuel)
    (fn : Fn) (isig : Sg) (stack : List String) (env : Env) :
    ∀ (its : List Item) (s sfin : VisitSt) (results : List RVal) (q : PSt),
      visitItems m W (analyse m W fuel) fn isig stack s its = .ok sfin → FIS.pathsOKL paths sfin.inters →
      SeenA m W paths fuel s.seen →
      KFrame paths q (plainItems W (plainFn W fuel) env q results its).2
  | [], _, _, _, q, _, _, _ => KFrame.refl _ q
  | it :: its, s, sfin, results, q, h, hok, hseen => by
    obtain ⟨t, hv, hr⟩ := visitItems_cons_inv h
    rw [plainItems_cons]
    have claim : KFrame paths q (plainItemRes W (plainFn W fuel) env q results it).2 ∧ SeenA m W paths fuel t.seen := by
      have node : ∀ (f : String) (g : Fn) (c : ArgCtx) (fis nd : FIS) (rf refs0 : Refs) (stack0 : List String) (kp : Option String)
          (df : Bool) (pos : List RVal) (kw : List (String × RVal)),
          W.find f = some g → analyse m W fuel refs0 stack0 g c = .ok (fis, rf) → nd ∈ sfin.inters →
          nd.subs = fis.subs → nd.storePath = (match kp with | some p => some p | none => g.storePath) →
          KFrame paths q (callRes W (plainFn W fuel) q f pos kw kp df).2 := by
        intro f g c fis nd rf refs0 stack0 kp df pos kw hfind ha hin hsubs hsp
        obtain ⟨k1, k2⟩ := (pathsOK_iff paths nd).mp (pathsOKL_mem hok hin)
        rw [hsubs] at k2
        refine callRes_frame hIH hfind ha k2 kp df (fun path hp => ?_) q pos kw
        have : nd.storePath = some path := by
          rw [hsp]
          rcases hp with rfl | ⟨rfl, _, hp⟩
          · rfl
          · exact hp
        rw [k1 path this]; simp
      cases it with
      | call f l =>
        obtain ⟨g, c, named, fis, rf, hstep, e⟩ := plain_inv (by simpa [visitItem] using hv)
        have hin : fis ∈ sfin.inters := mem_final_inters hr (by rw [e]; simp)
        rw [plainItemRes_call']
        exact ⟨node f g _ fis fis rf _ _ none true [] [] hstep.find hstep.sub hin rfl (analyse_storePath hstep.sub),
          by rw [e]; exact hseen⟩
      | callArgs f a k ra rk l =>
        obtain ⟨g, c, named, fis, rf, hstep, e⟩ := plain_inv (by simpa [visitItem] using hv)
        have hin : fis ∈ sfin.inters := mem_final_inters hr (by rw [e]; simp)
        rw [plainItemRes_callArgs']
        exact ⟨node f g _ fis fis rf _ _ none true _ _ hstep.find hstep.sub hin rfl (analyse_storePath hstep.sub),
          by rw [e]; exact hseen⟩
      | keep path f a k ra rk l =>
        obtain ⟨g, c, named, fis, rf, hstep, _, e⟩ := keep_inv hv
        have hin : fis.withPath path ∈ sfin.inters := mem_final_inters hr (by rw [e]; simp)
        rw [plainItemRes_keep']
        exact ⟨node f g _ fis (fis.withPath path) rf _ _ (some path) false _ _ hstep.find hstep.sub hin rfl rfl,
          by rw [e]; exact hseen⟩
      | ref f l =>
        rw [plainItemRes_ref']
        rcases ref_inv hv with ⟨hin, e⟩ | ⟨_, g, c, named, fis, rf, hstep, e⟩
        · obtain ⟨g, c, fis, rf, refs0, stack0, hfind, ha, hfok⟩ := hseen f hin
          obtain ⟨k1, k2⟩ := (pathsOK_iff paths fis).mp hfok
          refine ⟨callRes_frame hIH hfind ha k2 none true (fun path hp => ?_) q [] [], by rw [e]; exact hseen⟩
          rcases hp with hp | ⟨_, _, hp⟩
          · cases hp
          · rw [k1 path (by rw [analyse_storePath ha, hp])]; simp
        · have hin : fis ∈ sfin.inters := mem_final_inters hr (by rw [e]; simp)
          refine ⟨node f g _ fis fis rf _ _ none true [] [] hstep.find hstep.sub hin rfl (analyse_storePath hstep.sub), ?_⟩
          rw [e]
          intro f' hf'
          rcases mem_cons.mp hf' with rfl | hf'
          · exact ⟨g, ⟨named, c⟩, fis, rf, s.refs, stack ++ [f'], hstep.find, hstep.sub, pathsOKL_mem hok hin⟩
          · exact hseen f' hf'
      | load path l =>
        refine ⟨?_, by rw [load_inv hv]; exact hseen⟩
        simp only [plainItemRes]
        cases aget q.kept path <;> exact KFrame.refl _ _
      | evalCall f l => simp [visitItem] at hv
    obtain ⟨c1, c2⟩ := claim
    cases hR : plainItemRes W (plainFn W fuel) env q results it with
    | mk rv q' =>
      rw [hR] at c1
      cases rv with
      | error e => exact c1
      | ok v => exact c1.trans (plainItems_frame hIH fn isig stack env its t sfin _ q' hr hok c2)

theorem pframe (m : Nat) (W : World) (paths : List (String × Sg)) : ∀ fuel, PFrame m W paths fuel
  | 0 => by
    intro refs stack fn ctx env fis r q h
    exact absurd h analyse_zero
  | k + 1 => by
    intro refs stack fn ctx env fis r q h hok
    obtain ⟨ev, io, sv, b, d, ret, a⟩ := analyse_inv h
    have hsub : fis.subs = sv.inters := by rw [a.hfis]; rfl
    rw [hsub] at hok
    rw [plainFn_succ_snd]
    exact plainItems_frame (pframe m W paths k) fn _ stack env fn.items _ sv [] { q with log := q.log ++ [fn.name] }
      a.hvisit hok (fun f hf => absurd hf (by simp))

/-! ## Simulation: running under dds against a sound store = plain execution -/

theorem loadsOK_iff (Ω : Blobs) (k : LoadEnv) (f : FIS) :
    FIS.loadsOK Ω k f ↔ (∀ ps ∈ f.loads, ∃ v, sgGet Ω ps.2 = some v ∧ aget k ps.1 = some v) ∧ FIS.loadsOKL Ω k f.subs := by
  obtain ⟨n, s, p, subs, l⟩ := f
  simp only [FIS.loadsOK, FIS.loads, FIS.subs]

theorem loadsOK_withPath (Ω : Blobs) (k : LoadEnv) (f : FIS) (p : String) :
    FIS.loadsOK Ω k (f.withPath p) ↔ FIS.loadsOK Ω k f := by
  rw [loadsOK_iff, loadsOK_iff]; rfl

theorem loadsOKL_mem {Ω : Blobs} {k : LoadEnv} : ∀ {fs : List FIS} {f : FIS}, FIS.loadsOKL Ω k fs → f ∈ fs → FIS.loadsOK Ω k f
  | g :: gs, f, h, hm => by
    simp only [FIS.loadsOKL] at h
    rcases mem_cons.mp hm with e | e
    · subst e; exact h.1
    · exact loadsOKL_mem h.2 e

theorem loadsOKL_prefix {Ω : Blobs} {k : LoadEnv} : ∀ (a b : List FIS), FIS.loadsOKL Ω k (a ++ b) → FIS.loadsOKL Ω k a
  | [], _, _ => trivial
  | x :: a, b, h => by
    simp only [cons_append, FIS.loadsOKL] at h ⊢
    exact ⟨h.1, loadsOKL_prefix a b h.2⟩

mutual
theorem loadsOK_transfer {Ω : Blobs} {k1 k2 : LoadEnv} : ∀ (f : FIS), (∀ p ∈ f.allLoads, aget k2 p = aget k1 p) →
    FIS.loadsOK Ω k1 f → FIS.loadsOK Ω k2 f
  | .mk _ _ _ subs loads, he, h => by
    simp only [FIS.loadsOK] at h ⊢
    simp only [FIS.allLoads, mem_append] at he
    refine ⟨fun ps hps => ?_, loadsOKL_transfer subs (fun p hp => he p (Or.inr hp)) h.2⟩
    obtain ⟨v, h1, h2⟩ := h.1 ps hps
    exact ⟨v, h1, by rw [he ps.1 (Or.inl (mem_map.mpr ⟨ps, hps, rfl⟩))]; exact h2⟩
theorem loadsOKL_transfer {Ω : Blobs} {k1 k2 : LoadEnv} : ∀ (fs : List FIS), (∀ p ∈ FIS.allLoadsL fs, aget k2 p = aget k1 p) →
    FIS.loadsOKL Ω k1 fs → FIS.loadsOKL Ω k2 fs
  | [], _, _ => trivial
  | f :: fs, he, h => by
    simp only [FIS.loadsOKL] at h ⊢
    simp only [FIS.allLoadsL, mem_append] at he
    exact ⟨loadsOK_transfer f (fun p hp => he p (Or.inl hp)) h.1, loadsOKL_transfer fs (fun p hp => he p (Or.inr hp)) h.2⟩
end

theorem lookupRefs_mem {refs : Refs} : ∀ {ps : List String} {d : List (String × Sg)}, lookupRefs refs ps = .ok d →
    ∀ p ∈ ps, ∃ s, aget refs p = some s ∧ (p, s) ∈ d
  | [], _, _, p, hp => by cases hp
  | q :: qs, d, h, p, hp => by
    unfold lookupRefs at h
    cases hg : aget refs q with
    | none => simp [hg] at h
    | some s =>
      simp only [hg] at h
      obtain ⟨r, hr, h⟩ := bind_ok h
      simp only [pure, Except.pure, Except.ok.injEq] at h
      subst h
      rcases mem_cons.mp hp with rfl | hp
      · exact ⟨s, hg, mem_cons_self⟩
      · obtain ⟨s', h1, h2⟩ := lookupRefs_mem hr p hp
        exact ⟨s', h1, mem_cons_of_mem _ h2⟩

/-- storing under a key whose blob, if any, is that very value keeps every blob -/
theorem extends_storeBlob' (S : PStore) (k : Sg) (v : RVal) (hsame : ∀ w, sgGet S.blobs k = some w → w = v) :
    Extends S (S.storeBlob k v) := by
  intro k' v' h
  unfold PStore.storeBlob
  by_cases hn : S.noop = true
  · simp only [hn, if_true]; exact h
  · simp only [hn, Bool.false_eq_true, if_false]
    by_cases hk : k' = k
    · subst hk; rw [hsame v' h]; simp [sgGet]
    · have : sgGet ((k, v) :: S.blobs.filter (fun kv => kv.1 ≠ k)) k' = sgGet (S.blobs.filter (fun kv => kv.1 ≠ k)) k' := by
        simp [sgGet, Ne.symm hk]
      rw [this, sgGet_filter_ne _ _ _ hk]; exact h

theorem Sound.storeBlob' {U : Universe} {m x : Nat} {S : PStore} (hS : Sound U m x S)
    {W : World} {fn : Fn} {ctx : ArgCtx} {env : Env} {fuel : Nat} {refs : Refs} {stack : List String}
    {fis : FIS} {r : Refs} {p : PSt} {v : RVal}
    (hW : U.world W) (hx : W.extVersion = x) (hU : U.fns fn) (hc : Chain U m S.blobs W fn ctx env)
    (ha : analyse m W fuel refs stack fn ctx = .ok (fis, r)) (hl : FIS.loadsOK S.blobs p.kept fis)
    (hv : (plainFn W fuel p fn env).1 = .ok v) :
    Sound U m x (S.storeBlob fis.retSig v) ∧ Extends S (S.storeBlob fis.retSig v) := by
  have hsame : ∀ w, sgGet S.blobs fis.retSig = some w → w = v := by
    intro w hw
    have := served_right hS hW hx hU hc ha hw p hl
    rw [hv] at this
    exact (Except.ok.inj this).symm
  have he := extends_storeBlob' S fis.retSig v hsame
  refine ⟨?_, he⟩
  intro k' v' h
  rcases sgGet_storeBlob S _ _ _ _ h with ⟨rfl, rfl⟩ | h'
  · exact ⟨W, fn, ctx, env, fuel, refs, stack, fis, r, p, hW, hx, hU, hc.mono he, ha, rfl, loadsOK_mono he fis hl, hv⟩
  · exact hS.witness_mono he h'

/-! ## What plain execution keeps at the paths of the evaluation -/

mutual
/-- the paths kept in an interaction tree -/
def FIS.keptPaths : FIS → List String
  | .mk _ _ p subs _ => (match p with | some q => [q] | none => []) ++ FIS.keptPathsL subs
def FIS.keptPathsL : List FIS → List String
  | [] => []
  | f :: fs => FIS.keptPaths f ++ FIS.keptPathsL fs
end

theorem keptPaths_iff (f : FIS) (q : String) :
    q ∈ f.keptPaths ↔ f.storePath = some q ∨ q ∈ FIS.keptPathsL f.subs := by
  obtain ⟨n, s, p, subs, l⟩ := f
  simp only [FIS.keptPaths, FIS.storePath, FIS.subs, mem_append]
  cases p <;> simp [eq_comm]

theorem keptPathsL_append : ∀ (a b : List FIS), FIS.keptPathsL (a ++ b) = FIS.keptPathsL a ++ FIS.keptPathsL b
  | [], _ => rfl
  | x :: a, b => by simp only [cons_append, FIS.keptPathsL, keptPathsL_append a b, append_assoc]

theorem keptPathsL_mem {q : String} : ∀ {fs : List FIS} {f : FIS}, f ∈ fs → q ∈ f.keptPaths → q ∈ FIS.keptPathsL fs
  | g :: fs, f, hm, hq => by
    simp only [FIS.keptPathsL, mem_append]
    rcases mem_cons.mp hm with rfl | hm
    · exact Or.inl hq
    · exact Or.inr (keptPathsL_mem hm hq)

/-- at path `q`, plain execution holds the right value of the signature the evaluation maps the path to -/
def PKq (U : Universe) (m x : Nat) (Ω : Blobs) (paths : List (String × Sg)) (K : LoadEnv) (q : String) : Prop :=
  ∀ k, aget paths q = some k → ∃ v, aget K q = some v ∧ Right U m x Ω k v

/-- every path is either as it was, or holds the right value of its signature -/
def KStep (U : Universe) (m x : Nat) (Ω : Blobs) (paths : List (String × Sg)) (K K' : LoadEnv) : Prop :=
  ∀ q, aget K' q = aget K q ∨ PKq U m x Ω paths K' q

theorem PKq.congr {U : Universe} {m x : Nat} {Ω : Blobs} {paths : List (String × Sg)} {K K' : LoadEnv} {q : String}
    (h : PKq U m x Ω paths K q) (e : aget K' q = aget K q) : PKq U m x Ω paths K' q := by
  intro k hk
  obtain ⟨v, h1, h2⟩ := h k hk
  exact ⟨v, by rw [e]; exact h1, h2⟩

theorem KStep.refl {U : Universe} {m x : Nat} {Ω : Blobs} {paths : List (String × Sg)} (K : LoadEnv) :
    KStep U m x Ω paths K K := fun _ => Or.inl rfl

theorem KStep.trans {U : Universe} {m x : Nat} {Ω : Blobs} {paths : List (String × Sg)} {A B C : LoadEnv}
    (h1 : KStep U m x Ω paths A B) (h2 : KStep U m x Ω paths B C) : KStep U m x Ω paths A C := by
  intro q
  rcases h2 q with e | h
  · rcases h1 q with e' | h'
    · exact Or.inl (e.trans e')
    · exact Or.inr (h'.congr e)
  · exact Or.inr h

theorem PKq.step {U : Universe} {m x : Nat} {Ω : Blobs} {paths : List (String × Sg)} {K K' : LoadEnv} {q : String}
    (h : PKq U m x Ω paths K q) (hs : KStep U m x Ω paths K K') : PKq U m x Ω paths K' q := by
  rcases hs q with e | h'
  · exact h.congr e
  · exact h'

/-- the kept paths of the calls analysed so far, and of one more -/
theorem pk_snoc {U : Universe} {m x : Nat} {Ω : Blobs} {paths : List (String × Sg)} {K K' : LoadEnv} {a : List FIS} {nd : FIS}
    (hpk : ∀ q ∈ FIS.keptPathsL a, PKq U m x Ω paths K q) (hs : KStep U m x Ω paths K K')
    (hnd : ∀ q ∈ nd.keptPaths, PKq U m x Ω paths K' q) : ∀ q ∈ FIS.keptPathsL (a ++ [nd]), PKq U m x Ω paths K' q := by
  intro q hq
  rw [keptPathsL_append] at hq
  rcases mem_append.mp hq with h | h
  · exact (hpk q h).step hs
  · simp only [FIS.keptPathsL, append_nil] at h
    exact hnd q h

/-- what is fixed during one evaluation -/
structure EvalCtx (U : Universe) (x : Nat) (W : World) : Prop where
  hW : U.world W
  hx : W.extVersion = x
  hkp : W.keepsPlain

/-- `SimFn fuel`: running the body of an analysed, chained call under dds (with the path map of the evaluation and a
sound store) from a plain state that holds the blobs of the (external) paths the call loads gives the value of plain
execution, leaves a sound store, and loses no blob -/
def SimFn (U : Universe) (m x : Nat) (W : World) (paths : List (String × Sg)) (fuel : Nat) : Prop :=
  ∀ (fn : Fn) (ctx : ArgCtx) (env : Env) (refs : Refs) (stack : List String) (fis : FIS) (r : Refs) (st : XSt) (q : PSt)
    (Ω : Blobs),
    U.fns fn → fn ∈ W.funs → Chain U m Ω W fn ctx env → analyse m W fuel refs stack fn ctx = .ok (fis, r) →
    FIS.pathsOKL paths fis.subs → Sound U m x st.store → (∀ k v, sgGet Ω k = some v → sgGet st.store.blobs k = some v) →
    FIS.loadsOK Ω q.kept fis →
    (∀ p ∈ fis.allLoads, External paths p) →
    (∀ p s, External paths p → aget refs p = some s → aget st.store.paths p = some s) →
    (runFn W paths fuel st fn env).1 = (plainFn W fuel q fn env).1 ∧ Sound U m x (runFn W paths fuel st fn env).2.store ∧
    Extends st.store (runFn W paths fuel st fn env).2.store ∧
    KStep U m x Ω paths q.kept (plainFn W fuel q fn env).2.kept ∧
    (∀ v, (plainFn W fuel q fn env).1 = .ok v →
      ∀ path ∈ FIS.keptPathsL fis.subs, PKq U m x Ω paths (plainFn W fuel q fn env).2.kept path)

/-- a kept call (explicit `keep`, or a data function) of an analysed, chained callee -/
theorem sim_keep (U : Universe) {m x : Nat} {W : World} {paths : List (String × Sg)} {fuel : Nat}
    (hIH : SimFn U m x W paths fuel) (E : EvalCtx U x W)
    {g : Fn} {ctx : ArgCtx} {env' : Env} {refs : Refs} {stack : List String} {fis : FIS} {rf : Refs} {xst : XSt} {path : String}
    {Ω : Blobs} (hU : U.fns g) (hgW : g ∈ W.funs) (hc : Chain U m Ω W g ctx env')
    (ha : analyse m W fuel refs stack g ctx = .ok (fis, rf))
    (hkey : aget paths path = some fis.retSig) (hsubs : FIS.pathsOKL paths fis.subs) (hS : Sound U m x xst.store)
    (hΩ : ∀ k v, sgGet Ω k = some v → sgGet xst.store.blobs k = some v) (q : PSt)
    (hl : FIS.loadsOK Ω q.kept fis) (hext : ∀ p ∈ fis.allLoads, External paths p)
    (hrc : ∀ p s, External paths p → aget refs p = some s → aget xst.store.paths p = some s) :
    (keepExec paths (runFn W paths fuel) xst path g env').1 = (plainFn W fuel q g env').1 ∧
    Sound U m x (keepExec paths (runFn W paths fuel) xst path g env').2.store ∧
    Extends xst.store (keepExec paths (runFn W paths fuel) xst path g env').2.store := by
  unfold keepExec
  simp only [hkey]
  cases hb : sgGet xst.store.blobs fis.retSig with
  | some v =>
    simp only
    exact ⟨(served_right hS E.hW E.hx hU (hc.mono hΩ) ha hb q (loadsOK_mono hΩ fis hl)).symm, hS, Extends.refl _⟩
  | none =>
    simp only
    obtain ⟨h1, h2, h3, _⟩ := hIH g ctx env' refs stack fis rf xst q Ω hU hgW hc ha hsubs hS hΩ hl hext hrc
    cases hr : runFn W paths fuel xst g env' with
    | mk res st' =>
      rw [hr] at h1 h2 h3
      cases res with
      | ok v =>
        simp only at h1 h2 h3 ⊢
        have hΩ' : ∀ k v, sgGet Ω k = some v → sgGet st'.store.blobs k = some v := fun k v h => h3 k v (hΩ k v h)
        obtain ⟨s1, s2⟩ := Sound.storeBlob' h2 E.hW E.hx hU (hc.mono hΩ') ha (loadsOK_mono hΩ' fis hl) h1.symm
        exact ⟨h1, s1, h3.trans s2⟩
      | error e => exact ⟨h1, h2, h3⟩

/-- any call of an analysed, chained callee made while running under dds -/
theorem sim_call (U : Universe) {m x : Nat} {W : World} {paths : List (String × Sg)} {fuel : Nat}
    (hIH : SimFn U m x W paths fuel) (E : EvalCtx U x W)
    {g : Fn} {ctx : ArgCtx} {env' : Env} {refs : Refs} {stack : List String} {fis : FIS} {rf : Refs} {xst : XSt}
    {Ω : Blobs} (hU : U.fns g) (hgW : g ∈ W.funs) (hc : Chain U m Ω W g ctx env')
    (ha : analyse m W fuel refs stack g ctx = .ok (fis, rf))
    (kp : Option String)
    (hkey : ∀ path, (kp = some path ∨ (kp = none ∧ g.storePath = some path)) → aget paths path = some fis.retSig)
    (hsubs : FIS.pathsOKL paths fis.subs) (hS : Sound U m x xst.store)
    (hΩ : ∀ k v, sgGet Ω k = some v → sgGet xst.store.blobs k = some v) (q : PSt)
    (hl : FIS.loadsOK Ω q.kept fis) (hext : ∀ p ∈ fis.allLoads, External paths p)
    (hrc : ∀ p s, External paths p → aget refs p = some s → aget xst.store.paths p = some s) :
    (match kp with
      | some path => keepExec paths (runFn W paths fuel) xst path g env'
      | none => callExec paths (runFn W paths fuel) xst g env').1 = (plainFn W fuel q g env').1 ∧
    Sound U m x (match kp with
      | some path => keepExec paths (runFn W paths fuel) xst path g env'
      | none => callExec paths (runFn W paths fuel) xst g env').2.store ∧
    Extends xst.store (match kp with
      | some path => keepExec paths (runFn W paths fuel) xst path g env'
      | none => callExec paths (runFn W paths fuel) xst g env').2.store := by
  cases kp with
  | some path => exact sim_keep U hIH E hU hgW hc ha (hkey path (Or.inl rfl)) hsubs hS hΩ q hl hext hrc
  | none =>
    simp only [callExec]
    cases hp : g.storePath with
    | some path => exact sim_keep U hIH E hU hgW hc ha (hkey path (Or.inr ⟨rfl, hp⟩)) hsubs hS hΩ q hl hext hrc
    | none =>
      obtain ⟨h1, h2, h3, _⟩ := hIH g ctx env' refs stack fis rf xst q Ω hU hgW hc ha hsubs hS hΩ hl hext hrc
      exact ⟨h1, h2, h3⟩

/-- the body of an analysed, chained call that is being run: the whole body has been analysed (`sfin`), the plain state `q0` the
body is run from holds, at every (external) path loaded in the body or below, the blob of the signature it resolved to -/
structure BodyCtx (U : Universe) (m x : Nat) (W : World) (paths : List (String × Sg)) (fuel : Nat) (fn : Fn) (cctx : ArgCtx)
    (env : Env) (ev : List (String × Sg)) (io : Option Sg) (stack : List String) (refs : Refs) (Ω0 : Blobs) (q0 : PSt)
    (sfin : VisitSt) (deps : List (String × Sg)) : Prop where
  E : EvalCtx U x W
  hU : U.fns fn
  hfW : fn ∈ W.funs
  hch : Chain U m Ω0 W fn cctx env
  hev : hashVars m fn.vars = .ok ev
  hio : buildReturnSig none cctx [] [] fn.exts ev = .ok io
  hvisit : visitItems m W (analyse m W fuel) fn (io.getD (hJoin [])) stack { refs := refs } fn.items = .ok sfin
  hdeps : lookupRefs sfin.refs (dedupStr sfin.loads) = .ok deps
  hok : FIS.pathsOKL paths sfin.inters
  hlsubs : FIS.loadsOKL Ω0 q0.kept sfin.inters
  hlown : ∀ ps ∈ deps, ∃ v, sgGet Ω0 ps.2 = some v ∧ aget q0.kept ps.1 = some v
  hextL : ∀ p ∈ sfin.loads, External paths p
  hextT : ∀ p ∈ FIS.allLoadsL sfin.inters, External paths p

theorem callee_consts {it : Item} {f : String} {args : List AstArg} {kwargs : List (String × AstArg)}
    {rtA : List (Option RtExpr)} {rtK : List (String × Option RtExpr)} (h : it.callee = some (f, args, kwargs, rtA, rtK)) :
    (∀ v, AstArg.const v ∈ args → it.hasConst v) ∧ (∀ n v, (n, AstArg.const v) ∈ kwargs → it.hasConst v) := by
  cases it with
  | call g l => simp only [Item.callee, Option.some.injEq, Prod.mk.injEq] at h; obtain ⟨_, rfl, rfl, _⟩ := h; simp
  | ref g l => simp only [Item.callee, Option.some.injEq, Prod.mk.injEq] at h; obtain ⟨_, rfl, rfl, _⟩ := h; simp
  | callArgs g a k ra rk l =>
    simp only [Item.callee, Option.some.injEq, Prod.mk.injEq] at h
    obtain ⟨_, rfl, rfl, _⟩ := h
    exact ⟨fun v hv => Or.inl hv, fun n v hv => Or.inr ⟨n, hv⟩⟩
  | keep pth g a k ra rk l =>
    simp only [Item.callee, Option.some.injEq, Prod.mk.injEq] at h
    obtain ⟨_, rfl, rfl, _⟩ := h
    exact ⟨fun v hv => Or.inl hv, fun n v hv => Or.inr ⟨n, hv⟩⟩
  | load pth l => simp [Item.callee] at h
  | evalCall g l => simp [Item.callee] at h

theorem visitItems_append_inv {m : Nat} {W : World} {rec : Analyse} {fn : Fn} {isig : Sg} {stack : List String} :
    ∀ {pre its : List Item} {s0 sfin : VisitSt}, visitItems m W rec fn isig stack s0 (pre ++ its) = .ok sfin →
    ∃ s, visitItems m W rec fn isig stack s0 pre = .ok s ∧ visitItems m W rec fn isig stack s its = .ok sfin
  | [], its, s0, sfin, h => ⟨s0, rfl, h⟩
  | a :: pre, its, s0, sfin, h => by
    obtain ⟨t, h1, h2⟩ := visitItems_cons_inv (by simpa using h)
    obtain ⟨s, h3, h4⟩ := visitItems_append_inv h2
    exact ⟨s, by simp only [visitItems, h1, ok_bind]; exact h3, h4⟩

/-- the chain of a call made from the body of a chained call -/
theorem sub_chain {U : Universe} {m x : Nat} {W : World} {paths : List (String × Sg)} {fuel : Nat} {fn : Fn} {cctx : ArgCtx}
    {env : Env} {ev : List (String × Sg)} {io : Option Sg} {stack : List String} {refs : Refs} {Ω0 : Blobs} {q0 : PSt}
    {sfin : VisitSt} {deps : List (String × Sg)}
    (B : BodyCtx U m x W paths fuel fn cctx env ev io stack refs Ω0 q0 sfin deps)
    {Ω : Blobs} (he : ∀ k v, sgGet Ω0 k = some v → sgGet Ω k = some v)
    {pre post : List Item} {it : Item} {s : VisitSt} {results : List RVal}
    (hitems : fn.items = pre ++ it :: post)
    (hvis : visitItems m W (analyse m W fuel) fn (io.getD (hJoin [])) stack { refs := refs } pre = .ok s)
    (hsuf : visitItems m W (analyse m W fuel) fn (io.getD (hJoin [])) stack s (it :: post) = .ok sfin)
    (hres : (plainItems W (plainFn W fuel) env q0 [] pre).1 = .ok results)
    {f : String} {args : List AstArg} {kwargs : List (String × AstArg)} {rtA : List (Option RtExpr)}
    {rtK : List (String × Option RtExpr)} (hcallee : it.callee = some (f, args, kwargs, rtA, rtK))
    {g : Fn} {c : Option Sg} {named : List (String × Option Sg)} {fis : FIS} {rf : Refs}
    (hstep : CallStep m W (analyse m W fuel) fn (io.getD (hJoin [])) stack s f args kwargs it.line g c named fis rf)
    {env' : Env} (hbind : bindRun g.params (zipArgs results env args rtA) (zipKw results env kwargs rtK) 0 = some env') :
    Chain U m Ω W g ⟨named, c⟩ env' := by
  have hmem : it ∈ fn.items := by rw [hitems]; simp
  have hUg := U.find B.E.hW hstep.find
  cases hall : allSome named with
  | some kvs =>
    obtain ⟨hc1, hc2⟩ := callee_consts hcallee
    obtain ⟨vals, r1, r2, r3, r4⟩ := const_case U results env rtA rtK
      (fun v hv => U.constsIn fn B.hU it hmem v (hc1 v hv)) (fun n v hv => U.constsIn fn B.hU it hmem v (hc2 n v hv))
      g.params 0 named kvs env' (U.defaultsIn g hUg) (plainParams_mem (U.plainParams g hUg)) hstep.hnamed hall hbind
    rw [r1, r2]
    exact Chain.const W g c vals r3 r4
  | none =>
    obtain ⟨bh, _, hc⟩ := siteCtx_inv hstep.site
    obtain ⟨k, hk⟩ := contextSig_isSome bh (io.getD (hJoin []))
      (hashCommut (fisSigList (s.inters.map FIS.retSig) ++ loadsSigList s.refs (dedupStr s.loads)))
    rw [hk] at hc
    subst hc
    -- the calls analysed so far are a prefix of those of the whole body
    obtain ⟨d, hd⟩ := visitItems_grows hsuf
    have hlo : FIS.loadsOKL Ω q0.kept s.inters := by
      have := B.hlsubs
      rw [hd] at this
      exact loadsOKL_mono he _ (loadsOKL_prefix _ _ this)
    -- the paths loaded so far resolve as they do at the end of the body (they are external)
    have hlown : ∀ path ∈ s.loads, ∃ sg v, aget s.refs path = some sg ∧ sgGet Ω sg = some v ∧ aget q0.kept path = some v := by
      intro path hp
      obtain ⟨dl, hdl⟩ := visitItems_loads_grow hsuf
      have hpf : path ∈ sfin.loads := by rw [hdl]; exact mem_append_left _ hp
      obtain ⟨sg, h1, h2⟩ := lookupRefs_mem B.hdeps path ((mem_dedupStr path _).mpr hpf)
      obtain ⟨v, h3, h4⟩ := B.hlown _ h2
      have hfr := visitItems_refs_frame (aframe m W paths B.E.hkp fuel) B.E.hkp fn B.hfW _ stack (it :: post)
        (fun y hy => by rw [hitems]; exact mem_append_right _ hy) s sfin hsuf B.hok path (B.hextL path hpf)
      exact ⟨sg, v, by rw [← hfr]; exact h1, he _ _ h3, h4⟩
    exact Chain.site W fn cctx env fuel stack refs pre it post s results q0 f args kwargs rtA rtK g k named fis rf env' ev io
      (B.hch.mono he) B.E.hW B.hU hitems B.hev B.hio hvis hres hlo hlown hcallee hstep hall hbind

theorem callRes_fst (W : World) (rec : PlainRec) (q : PSt) (f : String) (pos : List RVal) (kw : List (String × RVal))
    (kp : Option String) (df : Bool) {g : Fn} (hf : W.find f = some g) {env' : Env} (hb : bindRun g.params pos kw 0 = some env') :
    (callRes W rec q f pos kw kp df).1 = (rec q g env').1 := by
  simp only [callRes, hf, hb]
  cases rec q g env' with
  | mk r st' => cases r <;> rfl

/-- the functions already referenced by name in this body: analysed, chained, their interaction tree part of the body's -/
def SeenOK (U : Universe) (m : Nat) (W : World) (paths : List (String × Sg)) (fuel : Nat) (Ω : Blobs) (refsE : Refs)
    (sfin : VisitSt) (seen : List String) : Prop :=
  ∀ f ∈ seen, ∃ (g : Fn) (ctx : ArgCtx) (fis : FIS) (rf refs0 : Refs) (stack0 : List String),
    W.find f = some g ∧ analyse m W fuel refs0 stack0 g ctx = .ok (fis, rf) ∧
    (∀ env', bindRun g.params [] [] 0 = some env' → Chain U m Ω W g ctx env') ∧ fis ∈ sfin.inters ∧
    (∀ p, External paths p → aget refs0 p = aget refsE p)

theorem SeenOK.mono {U : Universe} {m : Nat} {W : World} {paths : List (String × Sg)} {fuel : Nat} {Ω Ω' : Blobs} {refsE : Refs}
    {sfin : VisitSt} {seen : List String}
    (h : SeenOK U m W paths fuel Ω refsE sfin seen) (he : ∀ k v, sgGet Ω k = some v → sgGet Ω' k = some v) :
    SeenOK U m W paths fuel Ω' refsE sfin seen := by
  intro f hf
  obtain ⟨g, ctx, fis, rf, refs0, stack0, h1, h2, h3, h4, h5⟩ := h f hf
  exact ⟨g, ctx, fis, rf, refs0, stack0, h1, h2, fun env' hb => (h3 env' hb).mono he, h4, h5⟩

/-- a call made from the body, whose analysed tree `fis` (recorded as `nd` in the body's tree) is known -/
theorem sim_node {U : Universe} {m x : Nat} {W : World} {paths : List (String × Sg)} {fuel : Nat}
    (hIH : SimFn U m x W paths fuel) {fn : Fn} {cctx : ArgCtx}
    {env : Env} {ev : List (String × Sg)} {io : Option Sg} {stack : List String} {refs : Refs} {Ω0 : Blobs} {q0 : PSt}
    {sfin : VisitSt} {deps : List (String × Sg)}
    (B : BodyCtx U m x W paths fuel fn cctx env ev io stack refs Ω0 q0 sfin deps)
    {xst : XSt} {q : PSt} (hS : Sound U m x xst.store) (he : ∀ k v, sgGet Ω0 k = some v → sgGet xst.store.blobs k = some v)
    (hkf : KFrame paths q0 q)
    {f : String} {g : Fn} {ctx : ArgCtx} {fis nd : FIS} {rf refs0 : Refs} {stack0 : List String}
    (hfind : W.find f = some g) (ha : analyse m W fuel refs0 stack0 g ctx = .ok (fis, rf))
    (hin : nd ∈ sfin.inters) (hsig : nd.retSig = fis.retSig) (hsubs : nd.subs = fis.subs) (hloads : nd.loads = fis.loads)
    (kp : Option String) (df : Bool) (hsp : nd.storePath = (match kp with | some p => some p | none => g.storePath))
    (hdf : kp = none → df = true)
    (pos : List RVal) (kw : List (String × RVal))
    (hch : ∀ env', bindRun g.params pos kw 0 = some env' → Chain U m Ω0 W g ctx env')
    (hrc : ∀ p s, External paths p → aget refs0 p = some s → aget xst.store.paths p = some s) :
    (runCall W paths (runFn W paths fuel) xst f pos kw kp).1 = (callRes W (plainFn W fuel) q f pos kw kp df).1 ∧
    Sound U m x (runCall W paths (runFn W paths fuel) xst f pos kw kp).2.store ∧
    Extends xst.store (runCall W paths (runFn W paths fuel) xst f pos kw kp).2.store ∧
    KFrame paths q (callRes W (plainFn W fuel) q f pos kw kp df).2 ∧
    KStep U m x Ω0 paths q.kept (callRes W (plainFn W fuel) q f pos kw kp df).2.kept ∧
    (∀ v, (callRes W (plainFn W fuel) q f pos kw kp df).1 = .ok v →
      ∀ path ∈ nd.keptPaths, PKq U m x Ω0 paths (callRes W (plainFn W fuel) q f pos kw kp df).2.kept path) := by
  obtain ⟨k1, k2⟩ := (pathsOK_iff paths nd).mp (pathsOKL_mem B.hok hin)
  rw [hsig] at k1; rw [hsubs] at k2
  have hkey : ∀ path, (kp = some path ∨ (kp = none ∧ g.storePath = some path)) → aget paths path = some fis.retSig := by
    intro path hp
    apply k1 path
    rw [hsp]
    rcases hp with rfl | ⟨rfl, hp⟩
    · rfl
    · exact hp
  -- the frame of the plain side
  have hfr : KFrame paths q (callRes W (plainFn W fuel) q f pos kw kp df).2 := by
    refine callRes_frame (pframe m W paths fuel) hfind ha k2 kp df (fun path hp => ?_) q pos kw
    have : aget paths path = some fis.retSig := by
      rcases hp with h | ⟨h1, _, h3⟩
      · exact hkey path (Or.inl h)
      · exact hkey path (Or.inr ⟨h1, h3⟩)
    rw [this]; simp
  cases hb : bindRun g.params pos kw 0 with
  | none =>
    refine ⟨?_, ?_, ?_, hfr, ?_, ?_⟩
    · simp only [runCall, callRes, hfind, hb]
    · simp only [runCall, hfind, hb]; exact hS
    · simp only [runCall, hfind, hb]; exact Extends.refl _
    · simp only [callRes, hfind, hb]; exact KStep.refl _
    · simp only [callRes, hfind, hb]; intro v hv; cases hv
  | some env' =>
    -- the loads of the callee's tree: external, and the current plain state holds their blobs
    have hall : nd.allLoads = fis.allLoads := by
      obtain ⟨n1, s1, p1, subs1, l1⟩ := nd
      obtain ⟨n2, s2, p2, subs2, l2⟩ := fis
      simp only [FIS.subs, FIS.loads] at hsubs hloads
      simp only [FIS.allLoads, hsubs, hloads]
    have hext : ∀ p ∈ fis.allLoads, External paths p := fun p hp => B.hextT p (allLoadsL_mem hin (hall ▸ hp))
    have hl0 : FIS.loadsOK Ω0 q0.kept fis := by
      have := loadsOKL_mem B.hlsubs hin
      rw [loadsOK_iff] at this ⊢
      rw [← hsubs, ← hloads]; exact this
    have hl : FIS.loadsOK Ω0 q.kept fis := loadsOK_transfer fis (fun p hp => hkf p (hext p hp)) hl0
    have hUg := U.find B.E.hW hfind
    have hgW := List.mem_of_find?_eq_some hfind
    have hs := sim_call U hIH B.E hUg hgW (hch env' hb) ha kp hkey k2 hS he q hl hext hrc
    obtain ⟨_, _, _, p4, p5⟩ := hIH g ctx env' refs0 stack0 fis rf xst q Ω0 hUg hgW (hch env' hb) ha k2 hS he hl hext hrc
    -- the path the plain side writes is the path of the node
    have hplain : (∀ v, (plainFn W fuel q g env').1 = .ok v →
          KStep U m x Ω0 paths (plainFn W fuel q g env').2.kept (callRes W (plainFn W fuel) q f pos kw kp df).2.kept ∧
          ∀ path ∈ nd.keptPaths, PKq U m x Ω0 paths (callRes W (plainFn W fuel) q f pos kw kp df).2.kept path) ∧
        (∀ e, (plainFn W fuel q g env').1 = .error e →
          (callRes W (plainFn W fuel) q f pos kw kp df).2 = (plainFn W fuel q g env').2) := by
      simp only [callRes, hfind, hb]
      cases hp : plainFn W fuel q g env' with
      | mk pv q1 =>
        rw [hp] at p4 p5
        simp only at p4 p5
        cases pv with
        | error e => exact ⟨fun v hv => (by cases hv), fun _ _ => rfl⟩
        | ok v =>
          refine ⟨fun v' hv' => ?_, fun e he => (by cases he)⟩
          simp only [Except.ok.injEq] at hv'
          subst hv'
          simp only
          have gen : ∀ (wp : Option String), nd.storePath = wp →
              KStep U m x Ω0 paths q1.kept
                (match wp with | some p => ({ q1 with kept := aset q1.kept p v } : PSt) | none => q1).kept ∧
              ∀ path ∈ nd.keptPaths, PKq U m x Ω0 paths
                (match wp with | some p => ({ q1 with kept := aset q1.kept p v } : PSt) | none => q1).kept path := by
            intro wp hnp
            cases wp with
            | none =>
              simp only
              refine ⟨KStep.refl _, fun path hpath => ?_⟩
              rcases (keptPaths_iff nd path).mp hpath with h | h
              · rw [hnp] at h; cases h
              · rw [hsubs] at h; exact p5 v rfl path h
            | some pw =>
              simp only
              have hkp : aget paths pw = some fis.retSig := k1 pw hnp
              have hpw : PKq U m x Ω0 paths (aset q1.kept pw v) pw := by
                intro k hk
                rw [hkp] at hk
                simp only [Option.some.injEq] at hk
                subst hk
                refine ⟨v, aget_aset_eq _ _ _, W, g, ctx, env', fuel, refs0, stack0, fis, rf, q, B.E.hW, B.E.hx, hUg, hch env' hb, ha,
                  rfl, hl, ?_⟩
                rw [hp]
              have hst : KStep U m x Ω0 paths q1.kept (aset q1.kept pw v) := by
                intro path
                by_cases hpe : path = pw
                · subst hpe; exact Or.inr hpw
                · exact Or.inl (aget_aset_ne _ _ _ _ hpe)
              refine ⟨hst, fun path hpath => ?_⟩
              rcases (keptPaths_iff nd path).mp hpath with h | h
              · rw [hnp] at h
                simp only [Option.some.injEq] at h
                subst h; exact hpw
              · rw [hsubs] at h; exact (p5 v rfl path h).step hst
          cases kp with
          | some p => exact gen (some p) hsp
          | none => simp only [hdf rfl, if_true]; exact gen g.storePath hsp
    refine ⟨?_, ?_, ?_, hfr, ?_, ?_⟩
    · rw [callRes_fst W _ q f pos kw kp df hfind hb]
      simp only [runCall, hfind, hb]; exact hs.1
    · simp only [runCall, hfind, hb]; exact hs.2.1
    · simp only [runCall, hfind, hb]; exact hs.2.2
    · cases hv : (plainFn W fuel q g env').1 with
      | ok v => exact p4.trans (hplain.1 v hv).1
      | error e => rw [hplain.2 e hv]; exact p4
    · intro v hv
      rw [callRes_fst W _ q f pos kw kp df hfind hb] at hv
      exact (hplain.1 v hv).2

theorem runItemRes_paths (W : World) (rq : List (String × Sg)) (fuel : Nat) (env : Env) (st : XSt) (results : List RVal) (it : Item) :
    (runItemRes W rq (runFn W rq fuel) env st results it).2.store.paths = st.store.paths := by
  have hrec := runFn_paths W rq fuel
  have call : ∀ f pos kw kp, (runCall W rq (runFn W rq fuel) st f pos kw kp).2.store.paths = st.store.paths := by
    intro f pos kw kp
    simp only [runCall]
    cases W.find f with
    | none => rfl
    | some g =>
      simp only
      cases bindRun g.params pos kw 0 with
      | none => rfl
      | some env' =>
        simp only
        cases kp with
        | some path => exact keepExec_paths rq _ hrec st path g env'
        | none => exact callExec_paths rq _ hrec st g env'
  cases it with
  | call f l => exact call f _ _ _
  | ref f l => exact call f _ _ _
  | callArgs f a k ra rk l => exact call f _ _ _
  | keep path f a k ra rk l => exact call f _ _ _
  | load path l => simp only [runItemRes]; split <;> rfl
  | evalCall f l => rfl

theorem pathsOKL_prefix {paths : List (String × Sg)} : ∀ (a b : List FIS), FIS.pathsOKL paths (a ++ b) → FIS.pathsOKL paths a
  | [], _, _ => trivial
  | x :: a, b, h => by
    simp only [cons_append, FIS.pathsOKL] at h ⊢
    exact ⟨h.1, pathsOKL_prefix a b h.2⟩

/-- **running the items of a body under dds = running them plainly** -/
theorem sim_items {U : Universe} {m x : Nat} {W : World} {paths : List (String × Sg)} {fuel : Nat}
    (hIH : SimFn U m x W paths fuel) {fn : Fn} {cctx : ArgCtx}
    {env : Env} {ev : List (String × Sg)} {io : Option Sg} {stack : List String} {refs : Refs} {Ω0 : Blobs} {q0 : PSt}
    {sfin : VisitSt} {deps : List (String × Sg)}
    (B : BodyCtx U m x W paths fuel fn cctx env ev io stack refs Ω0 q0 sfin deps) :
    ∀ (its pre : List Item) (s : VisitSt) (results : List RVal) (q : PSt) (xst : XSt),
      fn.items = pre ++ its →
      visitItems m W (analyse m W fuel) fn (io.getD (hJoin [])) stack { refs := refs } pre = .ok s →
      plainItems W (plainFn W fuel) env q0 [] pre = (.ok results, q) →
      visitItems m W (analyse m W fuel) fn (io.getD (hJoin [])) stack s its = .ok sfin →
      SeenOK U m W paths fuel Ω0 refs sfin s.seen → Sound U m x xst.store →
      (∀ k v, sgGet Ω0 k = some v → sgGet xst.store.blobs k = some v) → KFrame paths q0 q →
      (∀ p sg, External paths p → aget refs p = some sg → aget xst.store.paths p = some sg) →
      (∀ path ∈ FIS.keptPathsL s.inters, PKq U m x Ω0 paths q.kept path) →
      (runItems W (some paths) (runFn W paths fuel) fn env xst results its).1 =
        (plainItems W (plainFn W fuel) env q results its).1 ∧
      Sound U m x (runItems W (some paths) (runFn W paths fuel) fn env xst results its).2.store ∧
      Extends xst.store (runItems W (some paths) (runFn W paths fuel) fn env xst results its).2.store ∧
      KStep U m x Ω0 paths q.kept (plainItems W (plainFn W fuel) env q results its).2.kept ∧
      (∀ rs, (plainItems W (plainFn W fuel) env q results its).1 = .ok rs →
        ∀ path ∈ FIS.keptPathsL sfin.inters, PKq U m x Ω0 paths (plainItems W (plainFn W fuel) env q results its).2.kept path)
  | [], _, s, _, q, xst, _, _, _, hrest, _, hS, _, _, _, hpk => by
    have hs : s = sfin := by simpa [visitItems, pure, Except.pure] using hrest
    subst hs
    exact ⟨rfl, hS, Extends.refl _, KStep.refl _, fun _ _ => hpk⟩
  | it :: its, pre, s, results, q, xst, hitems, hvis, hplain, hrest, hseen, hS, he, hkf, hrc, hpk => by
    obtain ⟨t, hv, hr⟩ := visitItems_cons_inv hrest
    rw [runItems_cons, plainItems_cons]
    have hmem : it ∈ fn.items := by rw [hitems]; simp
    have hres : (plainItems W (plainFn W fuel) env q0 [] pre).1 = .ok results := by rw [hplain]
    -- what the external paths resolve to has not changed since the entry of the body
    have hsr : ∀ p, External paths p → aget s.refs p = aget refs p := by
      intro p hp
      obtain ⟨d, hd⟩ := visitItems_grows hrest
      have hokS : FIS.pathsOKL paths s.inters := by
        have := B.hok; rw [hd] at this; exact pathsOKL_prefix _ _ this
      exact visitItems_refs_frame (aframe m W paths B.E.hkp fuel) B.E.hkp fn B.hfW _ stack pre
        (fun y hy => by rw [hitems]; exact mem_append_left _ hy) _ s hvis hokS p hp
    have hrcS : ∀ p sg, External paths p → aget s.refs p = some sg → aget xst.store.paths p = some sg :=
      fun p sg hp h => hrc p sg hp (by rw [← hsr p hp]; exact h)
    have hid : ∀ k v, sgGet Ω0 k = some v → sgGet Ω0 k = some v := fun _ _ h => h
    have claim : (runItemRes W paths (runFn W paths fuel) env xst results it).1 =
          (plainItemRes W (plainFn W fuel) env q results it).1 ∧
        Sound U m x (runItemRes W paths (runFn W paths fuel) env xst results it).2.store ∧
        Extends xst.store (runItemRes W paths (runFn W paths fuel) env xst results it).2.store ∧
        KFrame paths q (plainItemRes W (plainFn W fuel) env q results it).2 ∧
        SeenOK U m W paths fuel Ω0 refs sfin t.seen ∧
        KStep U m x Ω0 paths q.kept (plainItemRes W (plainFn W fuel) env q results it).2.kept ∧
        (∀ v, (plainItemRes W (plainFn W fuel) env q results it).1 = .ok v →
          ∀ path ∈ FIS.keptPathsL t.inters, PKq U m x Ω0 paths (plainItemRes W (plainFn W fuel) env q results it).2.kept path) := by
      cases it with
      | call f l =>
        obtain ⟨g, c, named, fis, rf, hstep, e⟩ := plain_inv (by simpa [visitItem] using hv)
        have hin : fis ∈ sfin.inters := mem_final_inters hr (by rw [e]; simp)
        have := sim_node hIH B hS he hkf hstep.find hstep.sub hin rfl rfl rfl none true (analyse_storePath hstep.sub)
          (fun _ => rfl) [] []
          (fun env' hb => sub_chain B hid hitems hvis hrest hres (it := .call f l) rfl hstep hb) hrcS
        rw [plainItemRes_call']
        exact ⟨this.1, this.2.1, this.2.2.1, this.2.2.2.1, by rw [e]; exact hseen, this.2.2.2.2.1,
          fun v hv' => by rw [e]; exact pk_snoc hpk this.2.2.2.2.1 (this.2.2.2.2.2 v hv')⟩
      | callArgs f args kwargs rtA rtK l =>
        obtain ⟨g, c, named, fis, rf, hstep, e⟩ := plain_inv (by simpa [visitItem] using hv)
        have hin : fis ∈ sfin.inters := mem_final_inters hr (by rw [e]; simp)
        have := sim_node hIH B hS he hkf hstep.find hstep.sub hin rfl rfl rfl none true (analyse_storePath hstep.sub)
          (fun _ => rfl)
          (zipArgs results env args rtA) (zipKw results env kwargs rtK)
          (fun env' hb => sub_chain B hid hitems hvis hrest hres (it := .callArgs f args kwargs rtA rtK l) rfl hstep hb) hrcS
        rw [plainItemRes_callArgs']
        exact ⟨this.1, this.2.1, this.2.2.1, this.2.2.2.1, by rw [e]; exact hseen, this.2.2.2.2.1,
          fun v hv' => by rw [e]; exact pk_snoc hpk this.2.2.2.2.1 (this.2.2.2.2.2 v hv')⟩
      | keep path f args kwargs rtA rtK l =>
        obtain ⟨g, c, named, fis, rf, hstep, _, e⟩ := keep_inv hv
        have hin : fis.withPath path ∈ sfin.inters := mem_final_inters hr (by rw [e]; simp)
        have := sim_node hIH B hS he hkf hstep.find hstep.sub hin rfl rfl rfl (some path) false rfl
          (fun h => by cases h)
          (zipArgs results env args rtA) (zipKw results env kwargs rtK)
          (fun env' hb => sub_chain B hid hitems hvis hrest hres (it := .keep path f args kwargs rtA rtK l) rfl hstep hb) hrcS
        rw [plainItemRes_keep']
        exact ⟨this.1, this.2.1, this.2.2.1, this.2.2.2.1, by rw [e]; exact hseen, this.2.2.2.2.1,
          fun v hv' => by rw [e]; exact pk_snoc hpk this.2.2.2.2.1 (this.2.2.2.2.2 v hv')⟩
      | ref f l =>
        rw [plainItemRes_ref']
        rcases ref_inv hv with ⟨hin, e⟩ | ⟨hnot, g, c, named, fis, rf, hstep, e⟩
        · obtain ⟨g, ctx, fis, rf, refs0, stack0, hfind, ha, hch, hfin, hr0⟩ := hseen f hin
          have := sim_node hIH B hS he hkf hfind ha hfin rfl rfl rfl none true (analyse_storePath ha) (fun _ => rfl) [] [] hch
            (fun p sg hp h => hrc p sg hp (by rw [← hr0 p hp]; exact h))
          exact ⟨this.1, this.2.1, this.2.2.1, this.2.2.2.1, by rw [e]; exact hseen, this.2.2.2.2.1,
            fun v hv' path hpath => by rw [e] at hpath; exact (hpk path hpath).step this.2.2.2.2.1⟩
        · have hin : fis ∈ sfin.inters := mem_final_inters hr (by rw [e]; simp)
          have hch : ∀ env', bindRun g.params [] [] 0 = some env' → Chain U m Ω0 W g ⟨named, c⟩ env' :=
            fun env' hb => sub_chain B hid hitems hvis hrest hres (it := .ref f l) rfl hstep hb
          have := sim_node hIH B hS he hkf hstep.find hstep.sub hin rfl rfl rfl none true (analyse_storePath hstep.sub)
            (fun _ => rfl) [] [] hch hrcS
          refine ⟨this.1, this.2.1, this.2.2.1, this.2.2.2.1, ?_, this.2.2.2.2.1,
            fun v hv' => by rw [e]; exact pk_snoc hpk this.2.2.2.2.1 (this.2.2.2.2.2 v hv')⟩
          rw [e]
          intro f' hf'
          rcases mem_cons.mp hf' with rfl | hf'
          · exact ⟨g, ⟨named, c⟩, fis, rf, s.refs, stack ++ [f'], hstep.find, hstep.sub, hch, hin, hsr⟩
          · exact hseen f' hf'
      | load path l =>
        have e := load_inv hv
        -- the path is external and is loaded by the body: the store has committed it to a key, and the plain state holds
        -- the blob under that key
        obtain ⟨dl, hdl⟩ := visitItems_loads_grow hr
        have hpf : path ∈ sfin.loads := by rw [hdl, e]; simp
        have hpe := B.hextL path hpf
        obtain ⟨sg, h1, h2⟩ := lookupRefs_mem B.hdeps path ((mem_dedupStr path _).mpr hpf)
        obtain ⟨v, h3, h4⟩ := B.hlown _ h2
        have hq : aget q.kept path = some v := by rw [hkf path hpe]; exact h4
        have hfin : aget sfin.refs path = aget refs path :=
          visitItems_refs_frame (aframe m W paths B.E.hkp fuel) B.E.hkp fn B.hfW _ stack fn.items (fun _ h => h) _ sfin B.hvisit
            B.hok path hpe
        have hcom : aget xst.store.paths path = some sg := hrc path sg hpe (by rw [← hfin]; exact h1)
        have hpn : aget paths path = none := hpe
        refine ⟨?_, ?_, ?_, ?_, by rw [e]; exact hseen, ?_, ?_⟩
        · simp only [plainItemRes, runItemRes, hq, hpn, hcom, Option.orElse, he sg v h3, Option.getD_some]
        · simp only [runItemRes]; split <;> exact hS
        · simp only [runItemRes]; split <;> exact Extends.refl _
        · simp only [plainItemRes, hq]; exact KFrame.refl _ _
        · simp only [plainItemRes, hq]; exact KStep.refl _
        · simp only [plainItemRes, hq]; rw [e]; exact fun _ _ => hpk
      | evalCall f l => exact absurd (by simp [Item.isEval]) (U.noEval fn B.hU _ hmem)
    obtain ⟨c1, c2, c3, c4, c5, c6, c7⟩ := claim
    have hpaths := runItemRes_paths W paths fuel env xst results it
    cases hR : runItemRes W paths (runFn W paths fuel) env xst results it with
    | mk rv xst' =>
      cases hP : plainItemRes W (plainFn W fuel) env q results it with
      | mk pv q' =>
        rw [hR, hP] at c1
        rw [hR] at c2 c3 hpaths
        rw [hP] at c4 c6 c7
        simp only at c1 c2 c3 c4 c6 c7 hpaths
        subst c1
        cases rv with
        | error e => exact ⟨rfl, c2, c3, c6, fun rs hrs => by cases hrs⟩
        | ok v =>
          simp only
          obtain ⟨i1, i2, i3, i4, i5⟩ := sim_items hIH B its (pre ++ [it]) t (results ++ [v]) q' xst'
            (by rw [hitems]; simp) (visitItems_snoc hvis hv) (plainItems_snoc W _ env pre q0 q q' [] results it v hplain hP)
            hr c5 c2 (fun k w h => c3 k w (he k w h)) (hkf.trans c4) (by rw [hpaths]; exact hrc) (c7 v rfl)
          exact ⟨i1, i2, c3.trans i3, c6.trans i4, i5⟩

theorem runFn_succ (W : World) (paths : List (String × Sg)) (fuel : Nat) (st : XSt) (fn : Fn) (env : Env) :
    (runFn W paths (fuel + 1) st fn env).1 =
      bodyOutcome W fn env (runItems W (some paths) (runFn W paths fuel) fn env { st with log := st.log ++ [fn.name] } [] fn.items).1 ∧
    (runFn W paths (fuel + 1) st fn env).2.store =
      (runItems W (some paths) (runFn W paths fuel) fn env { st with log := st.log ++ [fn.name] } [] fn.items).2.store := by
  simp only [runFn]
  generalize runItems W (some paths) (runFn W paths fuel) fn env { st with log := st.log ++ [fn.name] } [] fn.items = r
  obtain ⟨v, q⟩ := r
  cases v with
  | error e => exact ⟨rfl, rfl⟩
  | ok results =>
    simp only [bodyOutcome]
    cases fn.fails <;> exact ⟨rfl, rfl⟩

/-- **Simulation theorem**: for every nesting depth, the body of an analysed, chained call run under dds against a
sound store returns the plain value, leaves a sound store and loses no blob; and plain execution leaves, at every path kept
below the call, the right value of the signature the evaluation maps the path to -/
theorem sim_fn (U : Universe) (m x : Nat) (W : World) (paths : List (String × Sg)) (E : EvalCtx U x W) :
    ∀ fuel, SimFn U m x W paths fuel
  | 0 => by
    intro fn ctx env refs stack fis r st q Ω _ _ _ ha
    exact absurd ha analyse_zero
  | k + 1 => by
    intro fn ctx env refs stack fis r st q Ω hU hfW hch ha hsubs hS hΩ hl hext hrc
    obtain ⟨ev, io, sv, b, d, ret, a⟩ := analyse_inv ha
    have hsub : fis.subs = sv.inters := by rw [a.hfis]; rfl
    have hlo : fis.loads = d := by rw [a.hfis]; rfl
    have hall : fis.allLoads = d.map Prod.fst ++ FIS.allLoadsL sv.inters := by rw [a.hfis]; rfl
    obtain ⟨l1, l2⟩ := (loadsOK_iff _ _ _).mp hl
    rw [hlo] at l1; rw [hsub] at l2
    have B : BodyCtx U m x W paths k fn ctx env ev io stack refs Ω { q with log := q.log ++ [fn.name] } sv d :=
      { E := E, hU := hU, hfW := hfW, hch := hch, hev := a.hvars, hio := a.hinput, hvisit := a.hvisit, hdeps := a.hdeps,
        hok := by rw [← hsub]; exact hsubs, hlsubs := l2, hlown := l1,
        hextL := fun p hp => hext p (by
          rw [hall, lookupRefs_fst a.hdeps]; exact mem_append_left _ ((mem_dedupStr p _).mpr hp)),
        hextT := fun p hp => hext p (by rw [hall]; exact mem_append_right _ hp) }
    obtain ⟨r1, r2⟩ := runFn_succ W paths k st fn env
    obtain ⟨i1, i2, i3, i4, i5⟩ := sim_items (sim_fn U m x W paths E k) B fn.items [] _ [] { q with log := q.log ++ [fn.name] }
      { st with log := st.log ++ [fn.name] } rfl rfl rfl a.hvisit (fun f hf => absurd hf (by simp)) hS hΩ
      (KFrame.refl _ _) hrc (fun path hp => absurd hp (by simp [FIS.keptPathsL]))
    rw [r1, r2, plainFn_succ_fst, plainFn_succ_snd, i1]
    refine ⟨rfl, i2, i3, i4, fun v hv => ?_⟩
    obtain ⟨rs, hrs⟩ := bodyOutcome_ok hv
    rw [hsub]
    exact i5 rs hrs

/-! ## The plain state at the start of an evaluation holds the blobs of the loaded paths -/

theorem lookupRefs_sound {refs : Refs} : ∀ {ps : List String} {d : List (String × Sg)}, lookupRefs refs ps = .ok d →
    ∀ p s, (p, s) ∈ d → p ∈ ps ∧ aget refs p = some s
  | [], d, h, p, s, hm => by simp [lookupRefs] at h; subst h; cases hm
  | q :: qs, d, h, p, s, hm => by
    unfold lookupRefs at h
    cases hg : aget refs q with
    | none => simp [hg] at h
    | some s' =>
      simp only [hg] at h
      obtain ⟨r, hr, h⟩ := bind_ok h
      simp only [pure, Except.pure, Except.ok.injEq] at h
      subst h
      rcases mem_cons.mp hm with e | hm
      · simp only [Prod.mk.injEq] at e
        obtain ⟨rfl, rfl⟩ := e
        exact ⟨mem_cons_self, hg⟩
      · obtain ⟨h1, h2⟩ := lookupRefs_sound hr p s hm
        exact ⟨mem_cons_of_mem _ h1, h2⟩

/-- `LTree fuel`: if the plain state holds, at every external path the entry references resolve, the blob of the signature
it resolves to, then it does so at every path loaded in the analysed tree -/
def LTree (m : Nat) (W : World) (paths : List (String × Sg)) (Ω : Blobs) (K : LoadEnv) (fuel : Nat) : Prop :=
  ∀ (refs : Refs) (stack : List String) (fn : Fn) (ctx : ArgCtx) (fis : FIS) (r : Refs), fn ∈ W.funs →
    analyse m W fuel refs stack fn ctx = .ok (fis, r) → FIS.pathsOKL paths fis.subs →
    (∀ p ∈ fis.allLoads, External paths p) →
    (∀ p s, External paths p → aget refs p = some s → ∃ v, sgGet Ω s = some v ∧ aget K p = some v) →
    FIS.loadsOK Ω K fis

theorem ltree_items {m : Nat} {W : World} {paths : List (String × Sg)} {Ω : Blobs} {K : LoadEnv} {fuel : Nat}
    (hIH : LTree m W paths Ω K fuel) (hkp : W.keepsPlain) (fn : Fn) (hfW : fn ∈ W.funs) (isig : Sg) (stack : List String)
    (refs : Refs) (hK : ∀ p s, External paths p → aget refs p = some s → ∃ v, sgGet Ω s = some v ∧ aget K p = some v) :
    ∀ (its : List Item), (∀ it ∈ its, it ∈ fn.items) → ∀ (s sfin : VisitSt),
      visitItems m W (analyse m W fuel) fn isig stack s its = .ok sfin → FIS.pathsOKL paths sfin.inters →
      (∀ p ∈ FIS.allLoadsL sfin.inters, External paths p) →
      (∀ p, External paths p → aget s.refs p = aget refs p) →
      FIS.loadsOKL Ω K s.inters → FIS.loadsOKL Ω K sfin.inters
  | [], _, s, sfin, h, _, _, _, hl => by simp [visitItems] at h; subst h; exact hl
  | it :: its, hits, s, sfin, h, hok, hext, hsr, hl => by
    obtain ⟨t, hv, hr⟩ := visitItems_cons_inv h
    have hits' : ∀ y ∈ its, y ∈ fn.items := fun y hy => hits y (mem_cons_of_mem _ hy)
    have loadsOKL_snoc : ∀ (l : List FIS) (nd : FIS), FIS.loadsOKL Ω K l → FIS.loadsOK Ω K nd → FIS.loadsOKL Ω K (l ++ [nd]) := by
      intro l
      induction l with
      | nil => intro nd _ h2; exact ⟨h2, trivial⟩
      | cons a l ih =>
        intro nd h1 h2
        simp only [FIS.loadsOKL, cons_append] at h1 ⊢
        exact ⟨h1.1, ih nd h1.2 h2⟩
    -- the state after this item: external paths still resolve as at the entry
    have htr : ∀ p, External paths p → aget t.refs p = aget refs p := by
      intro p hp
      obtain ⟨d, hd⟩ := visitItems_grows hr
      have hokT : FIS.pathsOKL paths t.inters := by rw [hd] at hok; exact pathsOKL_prefix _ _ hok
      rw [visitItems_refs_frame (aframe m W paths hkp fuel) hkp fn hfW isig stack [it] (fun y hy => hits y (by simp only [mem_singleton] at hy; rw [hy]; exact mem_cons_self)) s t
        (by simp only [visitItems, hv, ok_bind]) hokT p hp]
      exact hsr p hp
    have node : ∀ (f : String) (g : Fn) (c : ArgCtx) (fis nd : FIS) (rf : Refs) (stack0 : List String),
        W.find f = some g → analyse m W fuel s.refs stack0 g c = .ok (fis, rf) → nd ∈ sfin.inters →
        nd.subs = fis.subs → nd.loads = fis.loads → FIS.loadsOK Ω K nd := by
      intro f g c fis nd rf stack0 hfind ha hin hsubs hloads
      obtain ⟨_, k2⟩ := (pathsOK_iff paths nd).mp (pathsOKL_mem hok hin)
      rw [hsubs] at k2
      have hall : nd.allLoads = fis.allLoads := by
        obtain ⟨n1, s1, p1, subs1, l1⟩ := nd
        obtain ⟨n2, s2, p2, subs2, l2⟩ := fis
        simp only [FIS.subs, FIS.loads] at hsubs hloads
        simp only [FIS.allLoads, hsubs, hloads]
      have := hIH s.refs stack0 g c fis rf (List.mem_of_find?_eq_some hfind) ha k2
        (fun p hp => hext p (allLoadsL_mem hin (hall ▸ hp)))
        (fun p sg hp h => hK p sg hp (by rw [← hsr p hp]; exact h))
      rw [loadsOK_iff] at this ⊢
      rw [hsubs, hloads]; exact this
    have step : ∀ (nd : FIS), t.inters = s.inters ++ [nd] → FIS.loadsOK Ω K nd → FIS.loadsOKL Ω K sfin.inters := by
      intro nd e hnd
      exact ltree_items hIH hkp fn hfW isig stack refs hK its hits' t sfin hr hok hext htr (by rw [e]; exact loadsOKL_snoc _ _ hl hnd)
    cases it with
    | call f l =>
      obtain ⟨g, c, named, fis, rf, hstep, e⟩ := plain_inv (by simpa [visitItem] using hv)
      have hin : fis ∈ sfin.inters := mem_final_inters hr (by rw [e]; simp)
      exact step fis (by rw [e]) (node f g _ fis fis rf _ hstep.find hstep.sub hin rfl rfl)
    | callArgs f a k ra rk l =>
      obtain ⟨g, c, named, fis, rf, hstep, e⟩ := plain_inv (by simpa [visitItem] using hv)
      have hin : fis ∈ sfin.inters := mem_final_inters hr (by rw [e]; simp)
      exact step fis (by rw [e]) (node f g _ fis fis rf _ hstep.find hstep.sub hin rfl rfl)
    | keep path f a k ra rk l =>
      obtain ⟨g, c, named, fis, rf, hstep, _, e⟩ := keep_inv hv
      have hin : fis.withPath path ∈ sfin.inters := mem_final_inters hr (by rw [e]; simp)
      exact step (fis.withPath path) (by rw [e]) (node f g _ fis (fis.withPath path) rf _ hstep.find hstep.sub hin rfl rfl)
    | ref f l =>
      rcases ref_inv hv with ⟨_, e⟩ | ⟨_, g, c, named, fis, rf, hstep, e⟩
      · rw [e] at hr htr
        exact ltree_items hIH hkp fn hfW isig stack refs hK its hits' s sfin hr hok hext hsr hl
      · have hin : fis ∈ sfin.inters := mem_final_inters hr (by rw [e]; simp)
        exact step fis (by rw [e]) (node f g _ fis fis rf _ hstep.find hstep.sub hin rfl rfl)
    | load path l =>
      have e := load_inv hv
      exact ltree_items hIH hkp fn hfW isig stack refs hK its hits' t sfin hr hok hext htr (by rw [e]; exact hl)
    | evalCall f l => simp [visitItem] at hv

theorem ltree (m : Nat) (W : World) (paths : List (String × Sg)) (Ω : Blobs) (K : LoadEnv) (hkp : W.keepsPlain) :
    ∀ fuel, LTree m W paths Ω K fuel
  | 0 => by
    intro refs stack fn ctx fis r _ h
    exact absurd h analyse_zero
  | k + 1 => by
    intro refs stack fn ctx fis r hfW h hok hext hK
    obtain ⟨ev, io, sv, b, d, ret, a⟩ := analyse_inv h
    have hsub : fis.subs = sv.inters := by rw [a.hfis]; rfl
    have hall : fis.allLoads = d.map Prod.fst ++ FIS.allLoadsL sv.inters := by rw [a.hfis]; rfl
    rw [hsub] at hok
    have hsubsOK := ltree_items (ltree m W paths Ω K hkp k) hkp fn hfW _ stack refs hK fn.items (fun _ h => h) _ sv a.hvisit hok
      (fun p hp => hext p (by rw [hall]; exact mem_append_right _ hp)) (fun _ _ => rfl) trivial
    rw [a.hfis]
    simp only [FIS.loadsOK]
    refine ⟨?_, hsubsOK⟩
    intro ps hps
    obtain ⟨p, s⟩ := ps
    obtain ⟨h1, h2⟩ := lookupRefs_sound a.hdeps p s hps
    have hpe : External paths p := hext p (by rw [hall]; exact mem_append_left _ (mem_map.mpr ⟨(p, s), hps, rfl⟩))
    have hfr := visitItems_refs_frame (aframe m W paths hkp k) hkp fn hfW _ stack fn.items (fun _ h => h) _ sv a.hvisit hok p hpe
    exact hK p s hpe (by rw [← hfr]; exact h2)

/-! ## One evaluation -/

/-- a successful analysis phase: what was computed -/
structure PhaseOk (m : Nat) (W : World) (S : PStore) (rq : Request) (fn : Fn) (env : Env) (fis' : FIS)
    (paths : List (String × Sg)) (named : List (String × Option Sg)) (refs0 : Refs) (fis : FIS) (r : Refs) : Prop where
  hfind : W.find rq.fn = some fn
  hnamed : getArgCtx m fn.params rq.args rq.kwargs = .ok named
  hana : analyse m W W.fuel refs0 [] fn ⟨named, none⟩ = .ok (fis, r)
  hfis : fis' = (match entryPathOf rq fn with | some p => fis.withPath p | none => fis)
  hpaths : allStorePaths [] fis' = .ok paths
  hbind : bindRun fn.params (rq.args.map RVal.py) (rq.kwargs.map (fun kv => (kv.1, RVal.py kv.2))) 0 = some env
  hrefs0 : ∀ p s, aget refs0 p = some s → aget S.paths p = some s

theorem fetchPaths_spec {S : PStore} : ∀ {ps : List String} {r : Refs}, fetchPaths S ps = .ok r →
    ∀ p s, aget r p = some s → aget S.paths p = some s
  | [], r, h, p, s, hp => by simp [fetchPaths] at h; subst h; simp [aget] at hp
  | q :: qs, r, h, p, s, hp => by
    unfold fetchPaths at h
    cases hq : aget S.paths q with
    | none => simp [hq] at h
    | some k =>
      simp only [hq] at h
      obtain ⟨r', hr', h⟩ := bind_ok h
      simp only [pure, Except.pure, Except.ok.injEq] at h
      subst h
      simp only [aget] at hp
      by_cases hqp : q = p
      · subst hqp
        simp only [if_true, Option.some.injEq] at hp
        subst hp; exact hq
      · simp only [hqp, if_false] at hp
        exact fetchPaths_spec hr' p s hp

theorem analysisPhase_inv {m : Nat} {W : World} {S : PStore} {rq : Request} {fn : Fn} {env : Env} {fis' : FIS}
    {paths : List (String × Sg)} (h : analysisPhase m W S rq = .ok (fn, env, fis', paths)) :
    ∃ named refs0 fis r, PhaseOk m W S rq fn env fis' paths named refs0 fis r := by
  unfold analysisPhase at h
  cases hf : W.find rq.fn with
  | none => simp [hf] at h
  | some fn0 =>
    simp only [hf] at h
    by_cases hb : badEntryPath rq fn0 = true
    · simp [hb] at h
    · simp only [hb, Bool.false_eq_true, if_false] at h
      cases hn : liftA (getArgCtx m fn0.params rq.args rq.kwargs) with
      | error e => simp [hn] at h
      | ok named =>
        simp only [hn] at h
        cases hi : indirectFn W W.fuel [] ({}, []) fn0 with
        | error e => simp [hi] at h
        | ok ind =>
          obtain ⟨ind, _⟩ := ind
          simp only [hi] at h
          cases ho : orderFn W ind.stores W.fuel [] fn0 with
          | error e => simp [ho] at h
          | ok _ =>
            simp only [ho] at h
            cases hp : fetchPaths S (loadsToCheck ind) with
            | error e => simp [hp] at h
            | ok refs0 =>
              simp only [hp] at h
              unfold analysisWith at h
              cases ha : analyse m W W.fuel refs0 [] fn0 ⟨named, none⟩ with
              | error e => simp [ha] at h
              | ok fr =>
                obtain ⟨fis, r⟩ := fr
                simp only [ha] at h
                split at h
                · simp at h
                · rename_i paths0 hs
                  split at h
                  · cases h
                  · cases hbd : bindRun fn0.params (rq.args.map RVal.py) (rq.kwargs.map (fun kv => (kv.1, RVal.py kv.2))) 0 with
                    | none => simp [hbd] at h
                    | some env0 =>
                      simp only [hbd, Except.ok.injEq, Prod.mk.injEq] at h
                      obtain ⟨rfl, rfl, rfl, rfl⟩ := h
                      exact ⟨named, refs0, fis, r, ⟨hf, liftA_ok hn, ha, rfl, hs, hbd, fetchPaths_spec hp⟩⟩

theorem zipArgs_consts (results : List RVal) (env : Env) : ∀ (args : List PyVal),
    zipArgs results env (constArgs args) [] = args.map RVal.py
  | [] => rfl
  | a :: as => by simp [constArgs, zipArgs, argValue] ; exact zipArgs_consts results env as

theorem zipKw_consts (results : List RVal) (env : Env) : ∀ (kw : List (String × PyVal)),
    zipKw results env (constKw kw) [] = kw.map (fun kv => (kv.1, RVal.py kv.2))
  | [] => rfl
  | (n, a) :: as => by simp [constKw, zipKw, argValue]; exact zipKw_consts results env as

theorem argPairs_allSome {a : ArgCtx} {pa : List (String × Sg)} (h : argPairs a = .ok pa) (hi : a.inner = none) :
    ∃ kvs, allSome a.named = some kvs := by
  unfold argPairs at h
  cases hs : allSome a.named with
  | some kvs => exact ⟨kvs, rfl⟩
  | none => simp [hs, hi] at h

/-- the chain of an entry call -/
theorem root_chain (U : Universe) {m : Nat} (Ω : Blobs) (W : World) {fn : Fn} (hU : U.fns fn) {args : List PyVal} {kwargs : List (String × PyVal)}
    (hargs : ∀ a ∈ args, U.avals a) (hkw : ∀ kv ∈ kwargs, U.avals kv.2)
    {named : List (String × Option Sg)} (hn : getArgCtx m fn.params args kwargs = .ok named)
    {kvs : List (String × Sg)} (hall : allSome named = some kvs)
    {env : Env} (hb : bindRun fn.params (args.map RVal.py) (kwargs.map (fun kv => (kv.1, RVal.py kv.2))) 0 = some env) :
    Chain U m Ω W fn ⟨named, none⟩ env := by
  have hast := getArgCtxAstFrom_const m args kwargs fn.params 0 named (U.plainParams fn hU) hn
  rw [← zipArgs_consts [] [] args, ← zipKw_consts [] [] kwargs] at hb
  obtain ⟨vals, r1, r2, r3, r4⟩ := const_case U [] [] [] []
    (fun v hv => by
      simp only [constArgs, mem_map, AstArg.const.injEq] at hv
      obtain ⟨a, ha, rfl⟩ := hv; exact hargs a ha)
    (fun n v hv => by
      simp only [constKw, mem_map, Prod.mk.injEq, AstArg.const.injEq] at hv
      obtain ⟨kv, hkv, _, rfl⟩ := hv; exact hkw kv hkv)
    fn.params 0 named kvs env (U.defaultsIn fn hU) (plainParams_mem (U.plainParams fn hU)) hast hall hb
  rw [r1, r2]
  exact Chain.const W fn none vals r3 r4

theorem sync_blobs (S : PStore) (ps : List (String × Sg)) : (S.sync ps).blobs = S.blobs := by
  unfold PStore.sync; split <;> rfl

theorem Sound.sync {U : Universe} {m x : Nat} {S : PStore} (h : Sound U m x S) (ps : List (String × Sg)) :
    Sound U m x (S.sync ps) := by
  intro k v hk
  rw [sync_blobs] at hk ⊢
  exact h k v hk

/-- the request's arguments are values on which `dds_hash` is injective (`Universe.vals`) -/
def Universe.request (U : Universe) (rq : Request) : Prop :=
  (∀ a ∈ rq.args, U.avals a) ∧ (∀ kv ∈ rq.kwargs, U.avals kv.2)

theorem withPath_retSig (f : FIS) (p : String) : (f.withPath p).retSig = f.retSig := rfl
theorem withPath_subs (f : FIS) (p : String) : (f.withPath p).subs = f.subs := rfl


theorem withPath_allLoads' (f : FIS) (p : String) : (f.withPath p).allLoads = f.allLoads := withPath_allLoads f p

/-- committed paths: the store has the blob of the key a path is committed to, and plain execution has kept that very value
at the path -/
def PathsKept (S : PStore) (K : LoadEnv) : Prop :=
  ∀ p k, aget S.paths p = some k → ∃ v, sgGet S.blobs k = some v ∧ aget K p = some v

/-- an evaluation the analysis rejects changes nothing and returns the error -/
theorem evalStep_rejected {m : Nat} {W : World} {S : PStore} {rq : Request} {e : DdsErr}
    (h : analysisPhase m W S rq = .error e) :
    (evalStep m W S rq).store = S ∧ (evalStep m W S rq).value = .error (.dds e) := by
  simp only [evalStep, h]; trivial

/-- **`memo_correct`.** One evaluation, in any version of the code, against a sound store whose committed paths hold what
plain execution has kept, accepted by the analysis, which does not itself produce the paths it loads: the store stays
sound and loses no blob; when the eval stage runs, the value returned (or the exception raised) is exactly that of plain
execution of the current code with the current arguments from the values kept so far; and plain execution leaves, at every
path the evaluation keeps, the right value of the signature the evaluation commits the path to. -/
theorem memo_correct (U : Universe) (m x : Nat) (W : World) (S : PStore) (K : LoadEnv) (rq : Request)
    (E : EvalCtx U x W) (hrq : U.request rq) (hS : Sound U m x S) (hPK : PathsKept S K)
    {fn : Fn} {env : Env} {fis' : FIS} {paths : List (String × Sg)}
    (ha : analysisPhase m W S rq = .ok (fn, env, fis', paths)) (hext : ∀ p ∈ fis'.allLoads, External paths p) :
    Sound U m x (evalStep m W S rq).store ∧ Extends S (evalStep m W S rq).store ∧
    (Stage.eval ∈ rq.stages →
      (evalStep m W S rq).value = ((plainFn W W.fuel { kept := K } fn env).1).map some) ∧
    KStep U m x S.blobs paths K (plainFn W W.fuel { kept := K } fn env).2.kept ∧
    (∀ v, (plainFn W W.fuel { kept := K } fn env).1 = .ok v →
      Right U m x S.blobs fis'.retSig v ∧
      ∀ path ∈ FIS.keptPathsL fis'.subs, PKq U m x S.blobs paths (plainFn W W.fuel { kept := K } fn env).2.kept path) := by
  obtain ⟨named, refs0, fis, r, P⟩ := analysisPhase_inv ha
  have hU := U.find E.hW P.hfind
  have hfW : fn ∈ W.funs := List.mem_of_find?_eq_some P.hfind
  obtain ⟨ev, io, sv, b, d, ret, a⟩ := analyse_inv (fuel := W.funs.length + 1) P.hana
  obtain ⟨pa, hpa⟩ := buildReturnSig_argPairs a.hret
  obtain ⟨kvs, hall⟩ := argPairs_allSome hpa rfl
  have hch := root_chain U S.blobs W hU hrq.1 hrq.2 P.hnamed hall P.hbind
  have hsig : fis'.retSig = fis.retSig := by rw [P.hfis]; cases entryPathOf rq fn <;> rfl
  have hsubs' : fis'.subs = fis.subs := by rw [P.hfis]; cases entryPathOf rq fn <;> rfl
  have hloads' : fis'.allLoads = fis.allLoads := by
    rw [P.hfis]; cases entryPathOf rq fn
    · rfl
    · exact withPath_allLoads _ _
  obtain ⟨k1, k2⟩ := (pathsOK_iff paths fis').mp ((allStorePaths_ok fis' [] paths P.hpaths).2 paths (fun _ _ h => h))
  rw [hsubs'] at k2
  rw [hsig] at k1
  rw [hloads'] at hext
  have hK : ∀ p s, External paths p → aget refs0 p = some s → ∃ v, sgGet S.blobs s = some v ∧ aget K p = some v :=
    fun p s _ h => hPK p s (P.hrefs0 p s h)
  have hl : FIS.loadsOK S.blobs K fis := ltree m W paths S.blobs K E.hkp W.fuel refs0 [] fn ⟨named, none⟩ fis r hfW P.hana k2 hext hK
  obtain ⟨s1, s2, s3, s4, s5⟩ := sim_fn U m x W paths E W.fuel fn ⟨named, none⟩ env refs0 [] fis r { store := S } { kept := K }
    S.blobs hU hfW hch P.hana k2 hS (fun _ _ h => h) hl hext (fun p s _ h => P.hrefs0 p s h)
  have hright : ∀ v, (plainFn W W.fuel { kept := K } fn env).1 = .ok v → Right U m x S.blobs fis'.retSig v :=
    fun v hv => ⟨W, fn, ⟨named, none⟩, env, W.fuel, refs0, [], fis, r, { kept := K }, E.hW, E.hx, hU, hch, P.hana, hsig.symm, hl, hv⟩
  refine ⟨?_, ?_, ?_, s4, fun v hv => ⟨hright v hv, by rw [hsubs']; exact s5 v hv⟩⟩
  all_goals
    by_cases hs : Stage.eval ∈ rq.stages
    · -- the result and the store before the commit of the paths
      have key : ∃ (res : Except XErr RVal) (st : XSt),
          (evalStep m W S rq).value = res.map some ∧
          ((evalStep m W S rq).store = st.store ∨ (evalStep m W S rq).store = st.store.sync paths) ∧
          res = (plainFn W W.fuel { kept := K } fn env).1 ∧ Sound U m x st.store ∧ Extends S st.store := by
        simp only [evalStep, ha, hs, not_true_eq_false, if_false]
        rw [hsig]
        cases hb : sgGet S.blobs fis.retSig with
        | some v =>
          refine ⟨.ok v, { store := S }, ?_, ?_, (served_right hS E.hW E.hx hU hch P.hana hb { kept := K } hl).symm, hS, Extends.refl _⟩
          · rfl
          · simp only; split <;> simp
        | none =>
          simp only
          cases hr : runFn W paths W.fuel { store := S } fn env with
          | mk rv st =>
            rw [hr] at s1 s2 s3
            simp only at s1 s2 s3
            cases rv with
            | error e => exact ⟨.error e, st, rfl, Or.inl rfl, s1, s2, s3⟩
            | ok v =>
              simp only
              cases hp : fis'.storePath with
              | none =>
                refine ⟨.ok v, st, rfl, ?_, s1, s2, s3⟩
                simp only; split <;> simp
              | some pth =>
                simp only [k1 pth hp]
                obtain ⟨t1, t2⟩ := Sound.storeBlob' s2 E.hW E.hx hU (hch.mono s3) P.hana
                  (loadsOK_mono s3 fis hl) (p := { kept := K }) s1.symm
                refine ⟨.ok v, { st with store := st.store.storeBlob fis.retSig v }, rfl, ?_, s1, t1, s3.trans t2⟩
                simp only; split <;> simp
      obtain ⟨res, st, h1, h2, h3, h4, h5⟩ := key
      first
        | (rcases h2 with h2 | h2 <;> rw [h2]
           · exact h4
           · exact h4.sync paths)
        | (rcases h2 with h2 | h2 <;> rw [h2]
           · exact h5
           · intro k v hk; rw [sync_blobs]; exact h5 k v hk)
        | (intro _; rw [h1, h3])
    · first
        | (simp only [evalStep, ha, hs, not_false_eq_true, if_true]; exact hS)
        | (simp only [evalStep, ha, hs, not_false_eq_true, if_true]; exact Extends.refl _)
        | (intro h; exact absurd h hs)

/-! ## Histories -/

/-- a step of a history: a version of the code and a request evaluated against the store left by the steps before -/
structure HStep where
  world : World
  rq : Request

def HStep.ok (U : Universe) (x : Nat) (s : HStep) : Prop :=
  EvalCtx U x s.world ∧ U.request s.rq

/-- the store after a history (any sequence of versions of the code, requests, stage lists) -/
def runHistory (m : Nat) : PStore → List HStep → PStore
  | S, [] => S
  | S, s :: ss => runHistory m (evalStep m s.world S s.rq).store ss

/-- the store and the values kept by plain execution after a history -/
def runHist (m : Nat) : HState → List HStep → HState
  | h, [] => h
  | h, s :: ss => runHist m (histStep m h s.world s.rq) ss

theorem runHist_store (m : Nat) : ∀ (hist : List HStep) (h : HState), (runHist m h hist).store = runHistory m h.store hist
  | [], _ => rfl
  | s :: ss, h => by simp only [runHist, runHistory]; rw [runHist_store m ss]; rfl

theorem sound_empty (U : Universe) (m x : Nat) (noop : Bool) : Sound U m x { noop := noop } := by
  intro k v h; simp [sgGet] at h

end Dds
