import DdsProofs.EnvSound
/-!
# Memoised evaluation returns what plain execution returns (`memo_correct`)

`Sound S`: every blob of the store is the plain value of some chained, analysed call — in some version of the
code — whose return signature is the blob's key. `memo_correct`: one evaluation (`evalStep`) in any version
of the code against a sound store returns exactly what plain execution of that version returns (values and
exceptions), and leaves a sound store. By induction over histories (`history_correct`): whatever was
evaluated earlier against the same store — older versions of the code, other variable values — every
evaluation returns the plain value of the current code.
-/
namespace Dds
open List

/-! ## Sound stores -/

def Sound (U : Universe) (m : Nat) (x : Nat) (S : PStore) : Prop :=
  ∀ k v, sgGet S.blobs k = some v →
    ∃ (W : World) (fn : Fn) (ctx : ArgCtx) (env : Env) (fuel : Nat) (refs : Refs) (stack : List String)
      (fis : FIS) (r : Refs) (p : PSt),
      U.world W ∧ W.extVersion = x ∧ U.fns fn ∧ Chain U m W fn ctx env ∧
      analyse m W fuel refs stack fn ctx = .ok (fis, r) ∧ fis.retSig = k ∧ (plainFn W fuel p fn env).1 = .ok v

theorem sgGet_filter_ne {α} (l : List (Sg × α)) (k k' : Sg) (h : k' ≠ k) :
    sgGet (l.filter (fun kv => kv.1 ≠ k)) k' = sgGet l k' := by
  induction l with
  | nil => rfl
  | cons a l ih =>
    obtain ⟨a1, a2⟩ := a
    by_cases ha : a1 = k
    · subst ha
      have : sgGet ((a1, a2) :: l) k' = sgGet l k' := by simp [sgGet, Ne.symm h]
      rw [this, ← ih]
      simp
    · have : ((a1, a2) :: l).filter (fun kv => kv.1 ≠ k) = (a1, a2) :: l.filter (fun kv => kv.1 ≠ k) := by
        simp [ha]
      rw [this]
      simp only [sgGet, ih]

theorem sgGet_storeBlob (S : PStore) (k k' : Sg) (v v' : RVal) (h : sgGet (S.storeBlob k v).blobs k' = some v') :
    (k' = k ∧ v' = v) ∨ sgGet S.blobs k' = some v' := by
  unfold PStore.storeBlob at h
  by_cases hn : S.noop = true
  · simp only [hn, if_true] at h; exact Or.inr h
  · simp only [hn] at h
    by_cases hk : k' = k
    · subst hk
      simp only [Bool.false_eq_true, if_false, sgGet, if_true, Option.some.injEq] at h
      exact Or.inl ⟨rfl, h.symm⟩
    · have : sgGet ((k, v) :: S.blobs.filter (fun kv => kv.1 ≠ k)) k' = sgGet (S.blobs.filter (fun kv => kv.1 ≠ k)) k' := by
        simp [sgGet, Ne.symm hk]
      simp only [Bool.false_eq_true, if_false] at h
      rw [this, sgGet_filter_ne _ _ _ hk] at h
      exact Or.inr h

/-- storing the plain value of a chained, analysed call under its signature keeps the store sound -/
theorem Sound.storeBlob {U : Universe} {m x : Nat} {S : PStore} (hS : Sound U m x S)
    {W : World} {fn : Fn} {ctx : ArgCtx} {env : Env} {fuel : Nat} {refs : Refs} {stack : List String}
    {fis : FIS} {r : Refs} {p : PSt} {v : RVal}
    (hW : U.world W) (hx : W.extVersion = x) (hU : U.fns fn) (hc : Chain U m W fn ctx env)
    (ha : analyse m W fuel refs stack fn ctx = .ok (fis, r)) (hv : (plainFn W fuel p fn env).1 = .ok v) :
    Sound U m x (S.storeBlob fis.retSig v) := by
  intro k' v' h
  rcases sgGet_storeBlob S _ _ _ _ h with ⟨rfl, rfl⟩ | h'
  · exact ⟨W, fn, ctx, env, fuel, refs, stack, fis, r, p, hW, hx, hU, hc, ha, rfl, hv⟩
  · exact hS k' v' h'

/-- **a served blob is the right value**: in a sound store, the blob under the signature of the current call is the
plain value of the current call in the current version of the code -/
theorem served_right {U : Universe} {m x : Nat} {S : PStore} (hS : Sound U m x S)
    {W : World} {fn : Fn} {ctx : ArgCtx} {env : Env} {fuel : Nat} {refs : Refs} {stack : List String}
    {fis : FIS} {r : Refs} {v : RVal}
    (hW : U.world W) (hx : W.extVersion = x) (hU : U.fns fn) (hc : Chain U m W fn ctx env)
    (ha : analyse m W fuel refs stack fn ctx = .ok (fis, r)) (hb : sgGet S.blobs fis.retSig = some v) (p : PSt) :
    (plainFn W fuel p fn env).1 = .ok v := by
  obtain ⟨W0, fn0, ctx0, env0, fuel0, refs0, stack0, fis0, r0, p0, hW0, hx0, hU0, hc0, ha0, hs0, hv0⟩ := hS _ _ hb
  rw [← hv0]
  exact sig_sound_full U m hc hc0 hW hW0 (hx.trans hx0.symm) hU hU0 ha ha0 hs0.symm p p0

/-! ## The path map fixed by the analysis covers every kept call of the tree -/

mutual
def FIS.pathsOK (paths : List (String × Sg)) : FIS → Prop
  | .mk _ s p subs _ => (match p with | some q => aget paths q = some s | none => True) ∧ FIS.pathsOKL paths subs
def FIS.pathsOKL (paths : List (String × Sg)) : List FIS → Prop
  | [] => True
  | f :: fs => FIS.pathsOK paths f ∧ FIS.pathsOKL paths fs
end

theorem aget_append_none {α} (l : List (String × α)) (k k' : String) (v : α) (h : aget l k = none) :
    aget (l ++ [(k, v)]) k' = if k' = k then some v else aget l k' := by
  induction l with
  | nil => simp [aget, eq_comm]
  | cons a l ih =>
    obtain ⟨a1, a2⟩ := a
    simp only [aget] at h
    by_cases ha : a1 = k
    · simp [ha] at h
    · simp only [ha, if_false] at h
      simp only [cons_append, aget]
      by_cases hk : a1 = k'
      · subst hk; simp [ha]
      · simp only [hk, if_false]; exact ih h

theorem odSet_ok {acc acc' : List (String × Sg)} {k : String} {v : Sg} (h : odSet acc k v = .ok acc') :
    aget acc' k = some v ∧ ∀ k' v', aget acc k' = some v' → aget acc' k' = some v' := by
  unfold odSet at h
  cases hg : aget acc k with
  | some v0 =>
    simp only [hg] at h
    by_cases hv : v0 = v
    · simp only [hv, if_true, Except.ok.injEq] at h
      subst h; subst hv
      exact ⟨hg, fun _ _ h => h⟩
    · simp [hv] at h
  | none =>
    simp only [hg, Except.ok.injEq] at h
    subst h
    refine ⟨by rw [aget_append_none _ _ _ _ hg]; simp, ?_⟩
    intro k' v' h'
    rw [aget_append_none _ _ _ _ hg]
    by_cases hk : k' = k
    · subst hk; rw [hg] at h'; cases h'
    · simp [hk, h']

mutual
theorem allStorePaths_ok : ∀ (f : FIS) (acc paths : List (String × Sg)), allStorePaths acc f = .ok paths →
    (∀ k v, aget acc k = some v → aget paths k = some v) ∧
    (∀ final, (∀ k v, aget paths k = some v → aget final k = some v) → FIS.pathsOK final f)
  | .mk n s p subs loads, acc, paths, h => by
    unfold allStorePaths at h
    cases p with
    | none =>
      simp only at h
      obtain ⟨m1, m2⟩ := allStorePathsL_ok subs acc paths h
      exact ⟨m1, fun final hf => ⟨trivial, m2 final hf⟩⟩
    | some q =>
      simp only at h
      cases ho : odSet acc q s with
      | error e => simp [ho] at h
      | ok acc' =>
        simp only [ho] at h
        obtain ⟨o1, o2⟩ := odSet_ok ho
        obtain ⟨m1, m2⟩ := allStorePathsL_ok subs acc' paths h
        exact ⟨fun k v hk => m1 k v (o2 k v hk), fun final hf => ⟨hf _ _ (m1 _ _ o1), m2 final hf⟩⟩
theorem allStorePathsL_ok : ∀ (fs : List FIS) (acc paths : List (String × Sg)), allStorePathsL acc fs = .ok paths →
    (∀ k v, aget acc k = some v → aget paths k = some v) ∧
    (∀ final, (∀ k v, aget paths k = some v → aget final k = some v) → FIS.pathsOKL final fs)
  | [], acc, paths, h => by
    simp only [allStorePathsL, Except.ok.injEq] at h
    subst h
    exact ⟨fun _ _ h => h, fun _ _ => trivial⟩
  | f :: fs, acc, paths, h => by
    unfold allStorePathsL at h
    cases hf : allStorePaths acc f with
    | error e => simp [hf] at h
    | ok acc' =>
      simp only [hf] at h
      obtain ⟨a1, a2⟩ := allStorePaths_ok f acc acc' hf
      obtain ⟨b1, b2⟩ := allStorePathsL_ok fs acc' paths h
      exact ⟨fun k v hk => b1 k v (a1 k v hk),
        fun final hfin => ⟨a2 final (fun k v hk => hfin k v (b1 k v hk)), b2 final hfin⟩⟩
end

theorem pathsOKL_mem {paths : List (String × Sg)} : ∀ {fs : List FIS} {f : FIS}, FIS.pathsOKL paths fs → f ∈ fs →
    FIS.pathsOK paths f
  | g :: gs, f, h, hm => by
    simp only [FIS.pathsOKL] at h
    rcases mem_cons.mp hm with e | e
    · subst e; exact h.1
    · exact pathsOKL_mem h.2 e

/-! ## Calls whose arguments are all known to the analysis -/

theorem zipArgs_none (results : List RVal) (env : Env) : ∀ (args : List AstArg) (rtA : List (Option RtExpr)) (i : Nat),
    args[i]? = none → (zipArgs results env args rtA)[i]? = none
  | [], _, _, _ => by simp [zipArgs]
  | a :: as, [], i, h => by
    cases i with
    | zero => simp at h
    | succ i => simp only [getElem?_cons_succ] at h; simp [zipArgs, zipArgs_none results env as [] i h]
  | a :: as, r :: rs, i, h => by
    cases i with
    | zero => simp at h
    | succ i => simp only [getElem?_cons_succ] at h; simp [zipArgs, zipArgs_none results env as rs i h]

theorem zipArgs_const (results : List RVal) (env : Env) (v : PyVal) :
    ∀ (args : List AstArg) (rtA : List (Option RtExpr)) (i : Nat),
    args[i]? = some (.const v) → (zipArgs results env args rtA)[i]? = some (.py v)
  | [], _, _, h => by simp at h
  | a :: as, [], i, h => by
    cases i with
    | zero => simp at h; subst h; simp [zipArgs, argValue]
    | succ i => simp only [getElem?_cons_succ] at h; simp [zipArgs, zipArgs_const results env v as [] i h]
  | a :: as, r :: rs, i, h => by
    cases i with
    | zero => simp at h; subst h; simp [zipArgs, argValue]
    | succ i => simp only [getElem?_cons_succ] at h; simp [zipArgs, zipArgs_const results env v as rs i h]

theorem zipKw_none (results : List RVal) (env : Env) (n : String) :
    ∀ (kwargs : List (String × AstArg)) (rtK : List (String × Option RtExpr)),
    lookupKw n kwargs = none → lookupKw n (zipKw results env kwargs rtK) = none
  | [], _, _ => by simp [zipKw, lookupKw]
  | (k, a) :: as, [], h => by
    simp only [lookupKw] at h
    by_cases hk : k = n
    · simp [hk] at h
    · simp only [hk, if_false] at h
      simp [zipKw, lookupKw, hk, zipKw_none results env n as [] h]
  | (k, a) :: as, (_, r) :: rs, h => by
    simp only [lookupKw] at h
    by_cases hk : k = n
    · simp [hk] at h
    · simp only [hk, if_false] at h
      simp [zipKw, lookupKw, hk, zipKw_none results env n as rs h]

theorem zipKw_const (results : List RVal) (env : Env) (n : String) (v : PyVal) :
    ∀ (kwargs : List (String × AstArg)) (rtK : List (String × Option RtExpr)),
    lookupKw n kwargs = some (.const v) → lookupKw n (zipKw results env kwargs rtK) = some (.py v)
  | [], _, h => by simp [lookupKw] at h
  | (k, a) :: as, [], h => by
    simp only [lookupKw] at h
    by_cases hk : k = n
    · simp only [hk, if_true, Option.some.injEq] at h; subst h; simp [zipKw, lookupKw, hk, argValue]
    · simp only [hk, if_false] at h
      simp [zipKw, lookupKw, hk, zipKw_const results env n v as [] h]
  | (k, a) :: as, (_, r) :: rs, h => by
    simp only [lookupKw] at h
    by_cases hk : k = n
    · simp only [hk, if_true, Option.some.injEq] at h; subst h; simp [zipKw, lookupKw, hk, argValue]
    · simp only [hk, if_false] at h
      simp [zipKw, lookupKw, hk, zipKw_const results env n v as rs h]

theorem lookupKw_mem {α} {n : String} {a : α} : ∀ {l : List (String × α)}, lookupKw n l = some a → (n, a) ∈ l
  | (k, b) :: l, h => by
    simp only [lookupKw] at h
    by_cases hk : k = n
    · simp only [hk, if_true, Option.some.injEq] at h; subst h; subst hk; exact mem_cons_self
    · simp only [hk, if_false] at h; exact mem_cons_of_mem _ (lookupKw_mem h)

theorem processArg_some {m : Nat} {a : AstArg} {h : Sg} (e : processArg m a = .ok (some h)) :
    ∃ v, a = .const v ∧ ddsHash m v = .ok h := by
  cases a with
  | other => simp [processArg] at e
  | const v =>
    unfold processArg at e
    obtain ⟨h', e1, e2⟩ := bind_ok e
    simp only [pure, Except.pure, Except.ok.injEq, Option.some.injEq] at e2
    subst e2
    exact ⟨v, rfl, liftHash_ok e1⟩

/-- the value run-time binding gives a parameter: positional, keyword, default -/
def pick (p : Param) (pos : List RVal) (kw : List (String × RVal)) (idx : Nat) : Option RVal :=
  match pos[idx]? with
  | some v => some v
  | none => match lookupKw p.name kw with
    | some v => some v
    | none => p.default.map RVal.py

theorem bindRun_cons (p : Param) (rest : List Param) (pos : List RVal) (kw : List (String × RVal)) (idx : Nat) :
    bindRun (p :: rest) pos kw idx =
      match pick p pos kw idx, bindRun rest pos kw (idx + 1) with
      | some v, some env => some ((p.name, v) :: env)
      | _, _ => none := by
  rw [bindRun]; rfl

theorem argAst_pick {m : Nat} {args : List AstArg} {kwargs : List (String × AstArg)} {idx : Nat} {p : Param} {h : Sg}
    (results : List RVal) (env : Env) (rtA : List (Option RtExpr)) (rtK : List (String × Option RtExpr))
    (e : argAst m args kwargs idx p = .ok (some h)) :
    ∃ v, ddsHash m v = .ok h ∧ pick p (zipArgs results env args rtA) (zipKw results env kwargs rtK) idx = some (.py v) ∧
      (AstArg.const v ∈ args ∨ (∃ n, (n, AstArg.const v) ∈ kwargs) ∨ p.default = some v) := by
  unfold argAst at e
  split at e
  · simp at e
  · cases ha : args[idx]? with
    | some a =>
      simp only [ha] at e
      obtain ⟨v, rfl, hv⟩ := processArg_some e
      refine ⟨v, hv, ?_, Or.inl (mem_of_getElem? ha)⟩
      simp [pick, zipArgs_const results env v args rtA idx ha]
    | none =>
      simp only [ha] at e
      cases hk : lookupKw p.name kwargs with
      | some a =>
        simp only [hk] at e
        obtain ⟨v, rfl, hv⟩ := processArg_some e
        refine ⟨v, hv, ?_, Or.inr (Or.inl ⟨_, lookupKw_mem hk⟩)⟩
        simp [pick, zipArgs_none results env args rtA idx ha, zipKw_const results env p.name v kwargs rtK hk]
      | none =>
        simp only [hk] at e
        cases hd : p.default with
        | none => simp [hd] at e
        | some d =>
          simp only [hd] at e
          obtain ⟨h', e1, e2⟩ := bind_ok e
          simp only [pure, Except.pure, Except.ok.injEq, Option.some.injEq] at e2
          subst e2
          refine ⟨d, liftHash_ok e1, ?_, Or.inr (Or.inr rfl)⟩
          simp [pick, zipArgs_none results env args rtA idx ha, zipKw_none results env p.name kwargs rtK hk, hd]

theorem allSome_cons_some {α β} {a : α} {b : Option β} {xs : List (α × Option β)} {kvs : List (α × β)}
    (h : allSome ((a, b) :: xs) = some kvs) : ∃ b' kvs', b = some b' ∧ allSome xs = some kvs' := by
  cases b with
  | none => simp [allSome] at h
  | some b' =>
    simp only [allSome] at h
    cases hx : allSome xs with
    | none => simp [hx] at h
    | some kvs' => exact ⟨b', kvs', rfl, rfl⟩

/-- all arguments known to the analysis: the parameter values are literals / defaults, hashed in the signature -/
theorem const_case (U : Universe) {m : Nat} {args : List AstArg} {kwargs : List (String × AstArg)}
    (results : List RVal) (env : Env) (rtA : List (Option RtExpr)) (rtK : List (String × Option RtExpr))
    (hargs : ∀ v, AstArg.const v ∈ args → U.avals v) (hkw : ∀ n v, (n, AstArg.const v) ∈ kwargs → U.avals v) :
    ∀ (ps : List Param) (idx : Nat) (named : List (String × Option Sg)) (kvs : List (String × Sg)) (env' : Env),
      (∀ p ∈ ps, ∀ d, p.default = some d → U.avals d) →
      getArgCtxAstFrom m args kwargs idx ps = .ok named → allSome named = some kvs →
      bindRun ps (zipArgs results env args rtA) (zipKw results env kwargs rtK) idx = some env' →
      ∃ vals : Vals, named = vals.named ∧ env' = vals.env ∧ vals.map (fun x => x.1) = ps.map Param.name ∧
        ∀ x ∈ vals, ddsHash m x.2.1 = .ok x.2.2 ∧ U.avals x.2.1
  | [], idx, named, kvs, env', _, hn, _, hb => by
    simp only [getArgCtxAstFrom, Except.ok.injEq] at hn
    rw [bindRun] at hb
    simp only [Option.some.injEq] at hb
    subst hn; subst hb
    exact ⟨[], rfl, rfl, rfl, fun _ h => absurd h (by simp)⟩
  | p :: ps, idx, named, kvs, env', hd, hn, hall, hb => by
    unfold getArgCtxAstFrom at hn
    obtain ⟨h, e1, hn⟩ := bind_ok hn
    obtain ⟨rest, e2, hn⟩ := bind_ok hn
    simp only [pure, Except.pure, Except.ok.injEq] at hn
    subst hn
    obtain ⟨hh, kvs', rfl, hall'⟩ := allSome_cons_some hall
    obtain ⟨v, hv, hpick, hsrc⟩ := argAst_pick results env rtA rtK e1
    rw [bindRun_cons, hpick] at hb
    cases hr : bindRun ps (zipArgs results env args rtA) (zipKw results env kwargs rtK) (idx + 1) with
    | none => simp [hr] at hb
    | some envr =>
      simp only [hr, Option.some.injEq] at hb
      subst hb
      obtain ⟨vals, r1, r2, r3, r4⟩ := const_case U results env rtA rtK hargs hkw ps (idx + 1) rest kvs' envr
        (fun q hq => hd q (mem_cons_of_mem _ hq)) e2 hall' hr
      have hval : U.avals v := by
        rcases hsrc with h1 | ⟨n, h2⟩ | h3
        · exact hargs v h1
        · exact hkw n v h2
        · exact hd p mem_cons_self v h3
      refine ⟨(p.name, v, hh) :: vals, ?_, ?_, ?_, ?_⟩
      · simp [Vals.named, r1]
      · simp [Vals.env, r2]
      · simp [r3]
      · intro x hx
        rcases mem_cons.mp hx with rfl | hx
        · exact ⟨hv, hval⟩
        · exact r4 x hx

/-! ## Running under dds, one item at a time -/

/-- a call made while running under dds: find, bind, then `keepExec` (explicit keep) or `callExec` -/
def runCall (W : World) (rq : List (String × Sg)) (rec : RunRec) (st : XSt) (f : String) (pos : List RVal)
    (kw : List (String × RVal)) (kp : Option String) : XRes :=
  match W.find f with
  | none => (.error (.dds .objectNotFound), st)
  | some g => match bindRun g.params pos kw 0 with
    | none => (.error (.exc "TypeError" f), st)
    | some env' => match kp with
      | some path => keepExec rq rec st path g env'
      | none => callExec rq rec st g env'

/-- the result of one item when running under dds (the `let r` of `runItems`) -/
def runItemRes (W : World) (rq : List (String × Sg)) (rec : RunRec) (env : Env) (st : XSt) (results : List RVal) : Item → XRes
  | .call f _ => runCall W rq rec st f [] [] none
  | .ref f _ => runCall W rq rec st f [] [] none
  | .callArgs f args kwargs rtA rtK _ => runCall W rq rec st f (zipArgs results env args rtA) (zipKw results env kwargs rtK) none
  | .keep path f args kwargs rtA rtK _ =>
    runCall W rq rec st f (zipArgs results env args rtA) (zipKw results env kwargs rtK) (some path)
  | .load path _ =>
    match (aget rq path).orElse (fun _ => aget st.store.paths path) with
    | none => (.error (.dds .missingPaths), st)
    | some key => (.ok ((sgGet st.store.blobs key).getD (.py .none)), st)
  | .evalCall _ _ => (.error (.dds .evalInEval), st)

theorem runItems_cons (W : World) (rq : List (String × Sg)) (rec : RunRec) (fn : Fn) (env : Env) (st : XSt)
    (results : List RVal) (it : Item) (its : List Item) :
    runItems W (some rq) rec fn env st results (it :: its) =
      match runItemRes W rq rec env st results it with
      | (.ok v, st') => runItems W (some rq) rec fn env st' (results ++ [v]) its
      | (.error e, st') => (.error e, st') := by
  cases it with
  | call f l =>
    simp only [runItems, runItemRes, runCall]
    cases W.find f with
    | none => rfl
    | some g => cases bindRun g.params [] [] 0 <;> rfl
  | ref f l =>
    simp only [runItems, runItemRes, runCall]
    cases W.find f with
    | none => rfl
    | some g => cases bindRun g.params [] [] 0 <;> rfl
  | callArgs f args kwargs rtA rtK l =>
    simp only [runItems, runItemRes, runCall]
    cases W.find f with
    | none => rfl
    | some g => cases bindRun g.params (zipArgs results env args rtA) (zipKw results env kwargs rtK) 0 <;> rfl
  | keep path f args kwargs rtA rtK l =>
    simp only [runItems, runItemRes, runCall]
    cases W.find f with
    | none => rfl
    | some g => cases bindRun g.params (zipArgs results env args rtA) (zipKw results env kwargs rtK) 0 <;> rfl
  | load path l => rfl
  | evalCall f l => rfl

/-! ## Appending one item -/

theorem visitItems_snoc {m : Nat} {W : World} {rec : Analyse} {fn : Fn} {isig : Sg} {stack : List String} :
    ∀ {pre : List Item} {s0 s t : VisitSt} {it : Item}, visitItems m W rec fn isig stack s0 pre = .ok s →
      visitItem m W rec fn isig stack s it = .ok t → visitItems m W rec fn isig stack s0 (pre ++ [it]) = .ok t
  | [], s0, s, t, it, h1, h2 => by
    simp only [visitItems, Except.ok.injEq] at h1
    subst h1
    simp only [nil_append, visitItems, h2, ok_bind]
  | a :: pre, s0, s, t, it, h1, h2 => by
    obtain ⟨u, hu, h1'⟩ := visitItems_cons_inv h1
    simp only [cons_append, visitItems, hu, ok_bind]
    exact visitItems_snoc h1' h2

theorem plainItems_snoc (W : World) (rec : PlainRec) (env : Env) :
    ∀ (pre : List Item) (p0 q q' : PSt) (acc results : List RVal) (it : Item) (v : RVal),
      plainItems W rec env p0 acc pre = (.ok results, q) → plainItemRes W rec env q results it = (.ok v, q') →
      plainItems W rec env p0 acc (pre ++ [it]) = (.ok (results ++ [v]), q')
  | [], p0, q, q', acc, results, it, v, h1, h2 => by
    simp only [plainItems, Prod.mk.injEq, Except.ok.injEq] at h1
    obtain ⟨rfl, rfl⟩ := h1
    rw [nil_append, plainItems_cons, h2]
    rfl
  | a :: pre, p0, q, q', acc, results, it, v, h1, h2 => by
    rw [plainItems_cons] at h1
    rw [cons_append, plainItems_cons]
    cases hr : plainItemRes W rec env p0 acc a with
    | mk r st' =>
      rw [hr] at h1
      cases r with
      | error e => simp at h1
      | ok w =>
        simp only at h1 ⊢
        exact plainItems_snoc W rec env pre st' q q' _ results it v h1 h2

/-! ## Simulation: running under dds against a sound store = plain execution -/

/-- `SimFn fuel`: running the body of an analysed, chained call under dds (with the path map of the evaluation and a
sound store) gives the value of plain execution and leaves a sound store -/
def SimFn (U : Universe) (m x : Nat) (W : World) (paths : List (String × Sg)) (fuel : Nat) : Prop :=
  ∀ (fn : Fn) (ctx : ArgCtx) (env : Env) (refs : Refs) (stack : List String) (fis : FIS) (r : Refs) (st : XSt) (p : PSt),
    U.fns fn → Chain U m W fn ctx env → analyse m W fuel refs stack fn ctx = .ok (fis, r) →
    FIS.pathsOKL paths fis.subs → Sound U m x st.store →
    (runFn W paths fuel st fn env).1 = (plainFn W fuel p fn env).1 ∧ Sound U m x (runFn W paths fuel st fn env).2.store

theorem pathsOK_iff (paths : List (String × Sg)) (f : FIS) :
    FIS.pathsOK paths f ↔ (∀ q, f.storePath = some q → aget paths q = some f.retSig) ∧ FIS.pathsOKL paths f.subs := by
  obtain ⟨n, s, p, subs, l⟩ := f
  simp only [FIS.pathsOK, FIS.storePath, FIS.retSig, FIS.subs]
  cases p with
  | none => simp
  | some q => simp

theorem analyse_storePath {m : Nat} {W : World} {fuel : Nat} {refs : Refs} {stack : List String} {fn : Fn} {ctx : ArgCtx}
    {fis : FIS} {r : Refs} (h : analyse m W fuel refs stack fn ctx = .ok (fis, r)) : fis.storePath = fn.storePath := by
  cases fuel with
  | zero => exact absurd h analyse_zero
  | succ k =>
    obtain ⟨_, _, _, _, _, _, a⟩ := analyse_inv h
    rw [a.hfis]; rfl

/-- a kept call (explicit `keep`, or a data function) of an analysed, chained callee -/
theorem sim_keep (U : Universe) {m x : Nat} {W : World} {paths : List (String × Sg)} {fuel : Nat}
    (hIH : SimFn U m x W paths fuel) (hW : U.world W) (hx : W.extVersion = x)
    {g : Fn} {ctx : ArgCtx} {env' : Env} {refs : Refs} {stack : List String} {fis : FIS} {rf : Refs} {xst : XSt} {path : String}
    (hU : U.fns g) (hc : Chain U m W g ctx env') (ha : analyse m W fuel refs stack g ctx = .ok (fis, rf))
    (hkey : aget paths path = some fis.retSig) (hsubs : FIS.pathsOKL paths fis.subs) (hS : Sound U m x xst.store) (q : PSt) :
    (keepExec paths (runFn W paths fuel) xst path g env').1 = (plainFn W fuel q g env').1 ∧
    Sound U m x (keepExec paths (runFn W paths fuel) xst path g env').2.store := by
  unfold keepExec
  simp only [hkey]
  cases hb : sgGet xst.store.blobs fis.retSig with
  | some v =>
    simp only
    exact ⟨(served_right hS hW hx hU hc ha hb q).symm, hS⟩
  | none =>
    simp only
    obtain ⟨h1, h2⟩ := hIH g ctx env' refs stack fis rf xst q hU hc ha hsubs hS
    cases hr : runFn W paths fuel xst g env' with
    | mk res st' =>
      rw [hr] at h1 h2
      cases res with
      | ok v =>
        simp only at h1 ⊢
        exact ⟨h1, Sound.storeBlob h2 hW hx hU hc ha h1.symm⟩
      | error e => exact ⟨h1, h2⟩

/-- any call of an analysed, chained callee made while running under dds -/
theorem sim_call (U : Universe) {m x : Nat} {W : World} {paths : List (String × Sg)} {fuel : Nat}
    (hIH : SimFn U m x W paths fuel) (hW : U.world W) (hx : W.extVersion = x)
    {g : Fn} {ctx : ArgCtx} {env' : Env} {refs : Refs} {stack : List String} {fis : FIS} {rf : Refs} {xst : XSt}
    (hU : U.fns g) (hc : Chain U m W g ctx env') (ha : analyse m W fuel refs stack g ctx = .ok (fis, rf))
    (kp : Option String)
    (hkey : ∀ path, (kp = some path ∨ (kp = none ∧ g.storePath = some path)) → aget paths path = some fis.retSig)
    (hsubs : FIS.pathsOKL paths fis.subs) (hS : Sound U m x xst.store) (q : PSt) :
    (match kp with
      | some path => keepExec paths (runFn W paths fuel) xst path g env'
      | none => callExec paths (runFn W paths fuel) xst g env').1 = (plainFn W fuel q g env').1 ∧
    Sound U m x (match kp with
      | some path => keepExec paths (runFn W paths fuel) xst path g env'
      | none => callExec paths (runFn W paths fuel) xst g env').2.store := by
  cases kp with
  | some path => exact sim_keep U hIH hW hx hU hc ha (hkey path (Or.inl rfl)) hsubs hS q
  | none =>
    simp only [callExec]
    cases hp : g.storePath with
    | some path => exact sim_keep U hIH hW hx hU hc ha (hkey path (Or.inr ⟨rfl, hp⟩)) hsubs hS q
    | none => exact hIH g ctx env' refs stack fis rf xst q hU hc ha hsubs hS

/-- the body of an analysed, chained call that is being run -/
structure BodyCtx (U : Universe) (m x : Nat) (W : World) (fn : Fn) (cctx : ArgCtx) (env : Env)
    (ev : List (String × Sg)) (io : Option Sg) : Prop where
  hW : U.world W
  hx : W.extVersion = x
  hU : U.fns fn
  hch : Chain U m W fn cctx env
  hev : hashVars m fn.vars = .ok ev
  hio : buildReturnSig none cctx [] [] fn.exts ev = .ok io

theorem callee_consts {it : Item} {f : String} {args : List AstArg} {kwargs : List (String × AstArg)}
    {rtA : List (Option RtExpr)} {rtK : List (String × Option RtExpr)} (h : it.callee = some (f, args, kwargs, rtA, rtK)) :
    (∀ v, AstArg.const v ∈ args → it.hasConst v) ∧ (∀ n v, (n, AstArg.const v) ∈ kwargs → it.hasConst v) := by
  cases it with
  | call g l => simp only [Item.callee, Option.some.injEq, Prod.mk.injEq] at h; obtain ⟨_, rfl, rfl, _⟩ := h; simp
  | ref g l => simp only [Item.callee, Option.some.injEq, Prod.mk.injEq] at h; obtain ⟨_, rfl, rfl, _⟩ := h; simp
  | callArgs g a k ra rk l =>
    simp only [Item.callee, Option.some.injEq, Prod.mk.injEq] at h
    obtain ⟨_, rfl, rfl, _⟩ := h
    exact ⟨fun v hv => Or.inl hv, fun n v hv => Or.inr ⟨n, hv⟩⟩
  | keep pth g a k ra rk l =>
    simp only [Item.callee, Option.some.injEq, Prod.mk.injEq] at h
    obtain ⟨_, rfl, rfl, _⟩ := h
    exact ⟨fun v hv => Or.inl hv, fun n v hv => Or.inr ⟨n, hv⟩⟩
  | load pth l => simp [Item.callee] at h
  | evalCall g l => simp [Item.callee] at h

/-- the chain of a call made from the body of a chained call -/
theorem sub_chain {U : Universe} {m x : Nat} {W : World} {fn : Fn} {cctx : ArgCtx} {env : Env}
    {ev : List (String × Sg)} {io : Option Sg} (B : BodyCtx U m x W fn cctx env ev io)
    {fuel : Nat} {stack : List String} {refs : Refs} {p0 : PSt}
    {pre post : List Item} {it : Item} {s : VisitSt} {results : List RVal}
    (hitems : fn.items = pre ++ it :: post)
    (hvis : visitItems m W (analyse m W fuel) fn (io.getD (hJoin [])) stack { refs := refs } pre = .ok s)
    (hres : (plainItems W (plainFn W fuel) env p0 [] pre).1 = .ok results)
    {f : String} {args : List AstArg} {kwargs : List (String × AstArg)} {rtA : List (Option RtExpr)}
    {rtK : List (String × Option RtExpr)} (hcallee : it.callee = some (f, args, kwargs, rtA, rtK))
    {g : Fn} {c : Option Sg} {named : List (String × Option Sg)} {fis : FIS} {rf : Refs}
    (hstep : CallStep m W (analyse m W fuel) fn (io.getD (hJoin [])) stack s f args kwargs it.line g c named fis rf)
    {env' : Env} (hbind : bindRun g.params (zipArgs results env args rtA) (zipKw results env kwargs rtK) 0 = some env') :
    Chain U m W g ⟨named, c⟩ env' := by
  have hmem : it ∈ fn.items := by rw [hitems]; simp
  have hUg := U.find B.hW hstep.find
  cases hall : allSome named with
  | some kvs =>
    obtain ⟨hc1, hc2⟩ := callee_consts hcallee
    obtain ⟨vals, r1, r2, r3, r4⟩ := const_case U results env rtA rtK
      (fun v hv => U.constsIn fn B.hU it hmem v (hc1 v hv)) (fun n v hv => U.constsIn fn B.hU it hmem v (hc2 n v hv))
      g.params 0 named kvs env' (U.defaultsIn g hUg) hstep.hnamed hall hbind
    rw [r1, r2]
    exact Chain.const W g c vals r3 r4
  | none =>
    obtain ⟨bh, _, hc⟩ := siteCtx_inv hstep.site
    obtain ⟨k, hk⟩ := contextSig_isSome bh (io.getD (hJoin []))
      (hashCommut (fisSigList (s.inters.map FIS.retSig) ++ loadsSigList s.refs (dedupStr s.loads)))
    rw [hk] at hc
    subst hc
    exact Chain.site W fn cctx env fuel stack refs pre it post s results p0 f args kwargs rtA rtK g k named fis rf env' ev io
      B.hch B.hW B.hU hitems B.hev B.hio hvis hres hcallee hstep hall hbind

theorem sim_callstep {U : Universe} {m x : Nat} {W : World} {paths : List (String × Sg)} {fuel : Nat}
    (hIH : SimFn U m x W paths fuel) {fn : Fn} {cctx : ArgCtx} {env : Env}
    {ev : List (String × Sg)} {io : Option Sg} (B : BodyCtx U m x W fn cctx env ev io)
    {stack : List String} {refs : Refs} {p0 q : PSt}
    {pre post : List Item} {it : Item} {s : VisitSt} {results : List RVal} {xst : XSt}
    (hitems : fn.items = pre ++ it :: post)
    (hvis : visitItems m W (analyse m W fuel) fn (io.getD (hJoin [])) stack { refs := refs } pre = .ok s)
    (hplain : plainItems W (plainFn W fuel) env p0 [] pre = (.ok results, q))
    {f : String} {args : List AstArg} {kwargs : List (String × AstArg)} {rtA : List (Option RtExpr)}
    {rtK : List (String × Option RtExpr)} (hcallee : it.callee = some (f, args, kwargs, rtA, rtK))
    {g : Fn} {c : Option Sg} {named : List (String × Option Sg)} {fis : FIS} {rf : Refs}
    (hstep : CallStep m W (analyse m W fuel) fn (io.getD (hJoin [])) stack s f args kwargs it.line g c named fis rf)
    (kp : Option String)
    (hkey : ∀ path, (kp = some path ∨ (kp = none ∧ g.storePath = some path)) → aget paths path = some fis.retSig)
    (hsubs : FIS.pathsOKL paths fis.subs) (hS : Sound U m x xst.store) :
    (runCall W paths (runFn W paths fuel) xst f (zipArgs results env args rtA) (zipKw results env kwargs rtK) kp).1 =
      callVal W (plainFn W fuel) q f (zipArgs results env args rtA) (zipKw results env kwargs rtK) ∧
    Sound U m x (runCall W paths (runFn W paths fuel) xst f (zipArgs results env args rtA) (zipKw results env kwargs rtK) kp).2.store := by
  simp only [runCall, callVal, hstep.find]
  cases hb : bindRun g.params (zipArgs results env args rtA) (zipKw results env kwargs rtK) 0 with
  | none => exact ⟨rfl, hS⟩
  | some env' =>
    have hres : (plainItems W (plainFn W fuel) env p0 [] pre).1 = .ok results := by rw [hplain]
    have hc := sub_chain B hitems hvis hres hcallee hstep hb
    exact sim_call U hIH B.hW B.hx (U.find B.hW hstep.find) hc hstep.sub kp hkey hsubs hS q

/-- the functions already referenced by name in this body: analysed, chained, their kept paths resolved -/
def SeenOK (U : Universe) (m : Nat) (W : World) (paths : List (String × Sg)) (fuel : Nat) (seen : List String) : Prop :=
  ∀ f ∈ seen, ∃ (g : Fn) (ctx : ArgCtx) (fis : FIS) (rf refs0 : Refs) (stack0 : List String),
    W.find f = some g ∧ analyse m W fuel refs0 stack0 g ctx = .ok (fis, rf) ∧
    (∀ env', bindRun g.params [] [] 0 = some env' → Chain U m W g ctx env') ∧ FIS.pathsOK paths fis

theorem sim_seen {U : Universe} {m x : Nat} {W : World} {paths : List (String × Sg)} {fuel : Nat}
    (hIH : SimFn U m x W paths fuel) (hW : U.world W) (hx : W.extVersion = x) {seen : List String}
    (hseen : SeenOK U m W paths fuel seen) {f : String} (hf : f ∈ seen) {xst : XSt} (hS : Sound U m x xst.store) (q : PSt) :
    (runCall W paths (runFn W paths fuel) xst f [] [] none).1 = callVal W (plainFn W fuel) q f [] [] ∧
    Sound U m x (runCall W paths (runFn W paths fuel) xst f [] [] none).2.store := by
  obtain ⟨g, ctx, fis, rf, refs0, stack0, hfind, ha, hch, hok⟩ := hseen f hf
  simp only [runCall, callVal, hfind]
  cases hb : bindRun g.params [] [] 0 with
  | none => exact ⟨rfl, hS⟩
  | some env' =>
    obtain ⟨k1, k2⟩ := (pathsOK_iff paths fis).mp hok
    refine sim_call U hIH hW hx (U.find hW hfind) (hch env' hb) ha none ?_ k2 hS q
    intro path hp
    rcases hp with hp | ⟨_, hp⟩
    · cases hp
    · exact k1 path (by rw [analyse_storePath ha, hp])

theorem mem_final_inters {m : Nat} {W : World} {rec : Analyse} {fn : Fn} {isig : Sg} {stack : List String}
    {its : List Item} {t sfin : VisitSt} (hr : visitItems m W rec fn isig stack t its = .ok sfin) {f : FIS}
    (hf : f ∈ t.inters) : f ∈ sfin.inters := by
  obtain ⟨d, hd⟩ := visitItems_grows hr
  rw [hd]; exact mem_append_left _ hf

/-- **running the items of a body under dds = running them plainly** -/
theorem sim_items {U : Universe} {m x : Nat} {W : World} {paths : List (String × Sg)} {fuel : Nat}
    (hIH : SimFn U m x W paths fuel) {fn : Fn} {cctx : ArgCtx} {env : Env}
    {ev : List (String × Sg)} {io : Option Sg} (B : BodyCtx U m x W fn cctx env ev io)
    (stack : List String) (refs : Refs) (p0 : PSt) :
    ∀ (its pre : List Item) (s sfin : VisitSt) (results : List RVal) (q : PSt) (xst : XSt),
      fn.items = pre ++ its →
      visitItems m W (analyse m W fuel) fn (io.getD (hJoin [])) stack { refs := refs } pre = .ok s →
      plainItems W (plainFn W fuel) env p0 [] pre = (.ok results, q) →
      visitItems m W (analyse m W fuel) fn (io.getD (hJoin [])) stack s its = .ok sfin →
      FIS.pathsOKL paths sfin.inters → SeenOK U m W paths fuel s.seen → Sound U m x xst.store →
      (runItems W (some paths) (runFn W paths fuel) fn env xst results its).1 =
        (plainItems W (plainFn W fuel) env q results its).1 ∧
      Sound U m x (runItems W (some paths) (runFn W paths fuel) fn env xst results its).2.store
  | [], _, _, _, _, _, _, _, _, _, _, _, _, hS => ⟨rfl, hS⟩
  | it :: its, pre, s, sfin, results, q, xst, hitems, hvis, hplain, hrest, hok, hseen, hS => by
    obtain ⟨t, hv, hr⟩ := visitItems_cons_inv hrest
    rw [runItems_cons, plainItems_cons]
    have hmem : it ∈ fn.items := by rw [hitems]; simp
    have claim : (runItemRes W paths (runFn W paths fuel) env xst results it).1 =
          (plainItemRes W (plainFn W fuel) env q results it).1 ∧
        Sound U m x (runItemRes W paths (runFn W paths fuel) env xst results it).2.store ∧
        SeenOK U m W paths fuel t.seen := by
      cases it with
      | call f l =>
        obtain ⟨g, c, named, fis, rf, hstep, e⟩ := plain_inv (by simpa [visitItem] using hv)
        have hin : fis ∈ sfin.inters := mem_final_inters hr (by rw [e]; simp)
        obtain ⟨k1, k2⟩ := (pathsOK_iff paths fis).mp (pathsOKL_mem hok hin)
        have := sim_callstep hIH B hitems hvis hplain (it := .call f l) rfl hstep none
          (fun path hp => by
            rcases hp with hp | ⟨_, hp⟩
            · cases hp
            · exact k1 path (by rw [analyse_storePath hstep.sub, hp])) k2 hS (q := q)
        rw [plainItemRes_call]
        refine ⟨this.1, this.2, ?_⟩
        rw [e]; exact hseen
      | callArgs f args kwargs rtA rtK l =>
        obtain ⟨g, c, named, fis, rf, hstep, e⟩ := plain_inv (by simpa [visitItem] using hv)
        have hin : fis ∈ sfin.inters := mem_final_inters hr (by rw [e]; simp)
        obtain ⟨k1, k2⟩ := (pathsOK_iff paths fis).mp (pathsOKL_mem hok hin)
        have := sim_callstep hIH B hitems hvis hplain (it := .callArgs f args kwargs rtA rtK l) rfl hstep none
          (fun path hp => by
            rcases hp with hp | ⟨_, hp⟩
            · cases hp
            · exact k1 path (by rw [analyse_storePath hstep.sub, hp])) k2 hS (q := q)
        rw [plainItemRes_callArgs]
        refine ⟨this.1, this.2, ?_⟩
        rw [e]; exact hseen
      | keep path f args kwargs rtA rtK l =>
        obtain ⟨g, c, named, fis, rf, hstep, _, e⟩ := keep_inv hv
        have hin : fis.withPath path ∈ sfin.inters := mem_final_inters hr (by rw [e]; simp)
        obtain ⟨k1, k2⟩ := (pathsOK_iff paths _).mp (pathsOKL_mem hok hin)
        have := sim_callstep hIH B hitems hvis hplain (it := .keep path f args kwargs rtA rtK l) rfl hstep (some path)
          (fun path' hp => by
            rcases hp with hp | ⟨hp, _⟩
            · cases hp; exact k1 path rfl
            · cases hp) k2 hS (q := q)
        rw [plainItemRes_keep]
        refine ⟨this.1, this.2, ?_⟩
        rw [e]; exact hseen
      | ref f l =>
        rw [plainItemRes_ref]
        rcases ref_inv hv with ⟨hin, e⟩ | ⟨hnot, g, c, named, fis, rf, hstep, e⟩
        · have := sim_seen hIH B.hW B.hx hseen hin hS q
          refine ⟨this.1, this.2, ?_⟩
          rw [e]; exact hseen
        · have hin : fis ∈ sfin.inters := mem_final_inters hr (by rw [e]; simp)
          have hfok := pathsOKL_mem hok hin
          obtain ⟨k1, k2⟩ := (pathsOK_iff paths fis).mp hfok
          have := sim_callstep hIH B hitems hvis hplain (it := .ref f l) rfl hstep none
            (fun path hp => by
              rcases hp with hp | ⟨_, hp⟩
              · cases hp
              · exact k1 path (by rw [analyse_storePath hstep.sub, hp])) k2 hS (q := q)
          refine ⟨this.1, this.2, ?_⟩
          rw [e]
          intro f' hf'
          rcases mem_cons.mp hf' with rfl | hf'
          · refine ⟨g, ⟨named, c⟩, fis, rf, s.refs, stack ++ [f'], hstep.find, hstep.sub, ?_, hfok⟩
            intro env' hb
            have hres : (plainItems W (plainFn W fuel) env p0 [] pre).1 = .ok results := by rw [hplain]
            exact sub_chain B hitems hvis hres (it := .ref f' l) rfl hstep hb
          · exact hseen f' hf'
      | load path l => exact absurd (U.noLoads fn B.hU _ hmem) (by simp [Item.noLoad])
      | evalCall f l => exact absurd (U.noLoads fn B.hU _ hmem) (by simp [Item.noLoad])
    obtain ⟨c1, c2, c3⟩ := claim
    cases hR : runItemRes W paths (runFn W paths fuel) env xst results it with
    | mk rv xst' =>
      cases hP : plainItemRes W (plainFn W fuel) env q results it with
      | mk pv q' =>
        rw [hR, hP] at c1
        rw [hR] at c2
        simp only at c1 c2
        subst c1
        cases rv with
        | error e => exact ⟨rfl, c2⟩
        | ok v =>
          simp only
          exact sim_items hIH B stack refs p0 its (pre ++ [it]) t sfin (results ++ [v]) q' xst'
            (by rw [hitems]; simp) (visitItems_snoc hvis hv) (plainItems_snoc W _ env pre p0 q q' [] results it v hplain hP)
            hr hok c3 c2

theorem runFn_succ (W : World) (paths : List (String × Sg)) (fuel : Nat) (st : XSt) (fn : Fn) (env : Env) :
    (runFn W paths (fuel + 1) st fn env).1 =
      bodyOutcome W fn env (runItems W (some paths) (runFn W paths fuel) fn env { st with log := st.log ++ [fn.name] } [] fn.items).1 ∧
    (runFn W paths (fuel + 1) st fn env).2.store =
      (runItems W (some paths) (runFn W paths fuel) fn env { st with log := st.log ++ [fn.name] } [] fn.items).2.store := by
  simp only [runFn]
  generalize runItems W (some paths) (runFn W paths fuel) fn env { st with log := st.log ++ [fn.name] } [] fn.items = r
  obtain ⟨v, q⟩ := r
  cases v with
  | error e => exact ⟨rfl, rfl⟩
  | ok results =>
    simp only [bodyOutcome]
    cases fn.fails <;> exact ⟨rfl, rfl⟩

/-- **Simulation theorem**: for every nesting depth, the body of an analysed, chained call run under dds against a
sound store returns the plain value and leaves a sound store -/
theorem sim_fn (U : Universe) (m x : Nat) (W : World) (paths : List (String × Sg)) (hW : U.world W)
    (hx : W.extVersion = x) : ∀ fuel, SimFn U m x W paths fuel
  | 0 => by
    intro fn ctx env refs stack fis r st p _ _ ha
    exact absurd ha analyse_zero
  | k + 1 => by
    intro fn ctx env refs stack fis r st p hU hch ha hsubs hS
    obtain ⟨ev, io, sv, b, d, ret, a⟩ := analyse_inv ha
    have B : BodyCtx U m x W fn ctx env ev io := ⟨hW, hx, hU, hch, a.hvars, a.hinput⟩
    have hsub' : FIS.pathsOKL paths sv.inters := by
      have : fis.subs = sv.inters := by rw [a.hfis]; rfl
      rw [← this]; exact hsubs
    obtain ⟨r1, r2⟩ := runFn_succ W paths k st fn env
    have := sim_items (sim_fn U m x W paths hW hx k) B stack refs { p with log := p.log ++ [fn.name] } fn.items [] _ sv []
      { p with log := p.log ++ [fn.name] } { st with log := st.log ++ [fn.name] } rfl rfl rfl a.hvisit hsub'
      (fun f hf => absurd hf (by simp)) hS
    rw [r1, r2, plainFn_succ_fst, this.1]
    exact ⟨rfl, this.2⟩

/-! ## One evaluation -/

/-- a successful analysis phase: what was computed -/
structure PhaseOk (m : Nat) (W : World) (S : PStore) (rq : Request) (fn : Fn) (env : Env) (fis' : FIS)
    (paths : List (String × Sg)) (named : List (String × Option Sg)) (refs0 : Refs) (fis : FIS) (r : Refs) : Prop where
  hfind : W.find rq.fn = some fn
  hnamed : getArgCtx m fn.params rq.args rq.kwargs = .ok named
  hana : analyse m W W.fuel refs0 [] fn ⟨named, none⟩ = .ok (fis, r)
  hfis : fis' = (match entryPathOf rq fn with | some p => fis.withPath p | none => fis)
  hpaths : allStorePaths [] fis' = .ok paths
  hbind : bindRun fn.params (rq.args.map RVal.py) (rq.kwargs.map (fun kv => (kv.1, RVal.py kv.2))) 0 = some env

theorem analysisPhase_inv {m : Nat} {W : World} {S : PStore} {rq : Request} {fn : Fn} {env : Env} {fis' : FIS}
    {paths : List (String × Sg)} (h : analysisPhase m W S rq = .ok (fn, env, fis', paths)) :
    ∃ named refs0 fis r, PhaseOk m W S rq fn env fis' paths named refs0 fis r := by
  unfold analysisPhase at h
  cases hf : W.find rq.fn with
  | none => simp [hf] at h
  | some fn0 =>
    simp only [hf] at h
    by_cases hb : badEntryPath rq fn0 = true
    · simp [hb] at h
    · simp only [hb, Bool.false_eq_true, if_false] at h
      cases hn : liftA (getArgCtx m fn0.params rq.args rq.kwargs) with
      | error e => simp [hn] at h
      | ok named =>
        simp only [hn] at h
        cases hi : indirectFn W W.fuel [] ({}, []) fn0 with
        | error e => simp [hi] at h
        | ok ind =>
          obtain ⟨ind, _⟩ := ind
          simp only [hi] at h
          cases ho : orderFn W ind.stores W.fuel [] fn0 with
          | error e => simp [ho] at h
          | ok _ =>
            simp only [ho] at h
            cases hp : fetchPaths S (loadsToCheck ind) with
            | error e => simp [hp] at h
            | ok refs0 =>
              simp only [hp] at h
              unfold analysisWith at h
              cases ha : analyse m W W.fuel refs0 [] fn0 ⟨named, none⟩ with
              | error e => simp [ha] at h
              | ok fr =>
                obtain ⟨fis, r⟩ := fr
                simp only [ha] at h
                split at h
                · simp at h
                · rename_i paths0 hs
                  split at h
                  · cases h
                  · cases hbd : bindRun fn0.params (rq.args.map RVal.py) (rq.kwargs.map (fun kv => (kv.1, RVal.py kv.2))) 0 with
                    | none => simp [hbd] at h
                    | some env0 =>
                      simp only [hbd, Except.ok.injEq, Prod.mk.injEq] at h
                      obtain ⟨rfl, rfl, rfl, rfl⟩ := h
                      exact ⟨named, refs0, fis, r, ⟨hf, liftA_ok hn, ha, rfl, hs, hbd⟩⟩

theorem zipArgs_consts (results : List RVal) (env : Env) : ∀ (args : List PyVal),
    zipArgs results env (constArgs args) [] = args.map RVal.py
  | [] => rfl
  | a :: as => by simp [constArgs, zipArgs, argValue] ; exact zipArgs_consts results env as

theorem zipKw_consts (results : List RVal) (env : Env) : ∀ (kw : List (String × PyVal)),
    zipKw results env (constKw kw) [] = kw.map (fun kv => (kv.1, RVal.py kv.2))
  | [] => rfl
  | (n, a) :: as => by simp [constKw, zipKw, argValue]; exact zipKw_consts results env as

theorem argPairs_allSome {a : ArgCtx} {pa : List (String × Sg)} (h : argPairs a = .ok pa) (hi : a.inner = none) :
    ∃ kvs, allSome a.named = some kvs := by
  unfold argPairs at h
  cases hs : allSome a.named with
  | some kvs => exact ⟨kvs, rfl⟩
  | none => simp [hs, hi] at h

/-- the chain of an entry call -/
theorem root_chain (U : Universe) {m : Nat} (W : World) {fn : Fn} (hU : U.fns fn) {args : List PyVal} {kwargs : List (String × PyVal)}
    (hargs : ∀ a ∈ args, U.avals a) (hkw : ∀ kv ∈ kwargs, U.avals kv.2)
    {named : List (String × Option Sg)} (hn : getArgCtx m fn.params args kwargs = .ok named)
    {kvs : List (String × Sg)} (hall : allSome named = some kvs)
    {env : Env} (hb : bindRun fn.params (args.map RVal.py) (kwargs.map (fun kv => (kv.1, RVal.py kv.2))) 0 = some env) :
    Chain U m W fn ⟨named, none⟩ env := by
  have hast := getArgCtxAstFrom_const m args kwargs fn.params 0 named (U.plainParams fn hU) hn
  rw [← zipArgs_consts [] [] args, ← zipKw_consts [] [] kwargs] at hb
  obtain ⟨vals, r1, r2, r3, r4⟩ := const_case U [] [] [] []
    (fun v hv => by
      simp only [constArgs, mem_map, AstArg.const.injEq] at hv
      obtain ⟨a, ha, rfl⟩ := hv; exact hargs a ha)
    (fun n v hv => by
      simp only [constKw, mem_map, Prod.mk.injEq, AstArg.const.injEq] at hv
      obtain ⟨kv, hkv, _, rfl⟩ := hv; exact hkw kv hkv)
    fn.params 0 named kvs env (U.defaultsIn fn hU) hast hall hb
  rw [r1, r2]
  exact Chain.const W fn none vals r3 r4

theorem sync_blobs (S : PStore) (ps : List (String × Sg)) : (S.sync ps).blobs = S.blobs := by
  unfold PStore.sync; split <;> rfl

theorem Sound.sync {U : Universe} {m x : Nat} {S : PStore} (h : Sound U m x S) (ps : List (String × Sg)) :
    Sound U m x (S.sync ps) := by
  intro k v hk; rw [sync_blobs] at hk; exact h k v hk

/-- the request's arguments are values on which `dds_hash` is injective (`Universe.vals`) -/
def Universe.request (U : Universe) (rq : Request) : Prop :=
  (∀ a ∈ rq.args, U.avals a) ∧ (∀ kv ∈ rq.kwargs, U.avals kv.2)

theorem withPath_retSig (f : FIS) (p : String) : (f.withPath p).retSig = f.retSig := rfl
theorem withPath_subs (f : FIS) (p : String) : (f.withPath p).subs = f.subs := rfl

/-- **`memo_correct`.** One evaluation, in any version of the code, against a sound store: when the analysis accepts
the evaluation and the eval stage runs, the value returned (or the exception raised) is exactly that of plain
execution of the current code with the current arguments; in every case the store stays sound. -/
theorem memo_correct (U : Universe) (m x : Nat) (W : World) (S : PStore) (rq : Request)
    (hW : U.world W) (hx : W.extVersion = x) (hrq : U.request rq) (hS : Sound U m x S) :
    Sound U m x (evalStep m W S rq).store ∧
    ∀ fn env fis' paths, analysisPhase m W S rq = .ok (fn, env, fis', paths) → Stage.eval ∈ rq.stages →
      ∀ p, (evalStep m W S rq).value = ((plainFn W W.fuel p fn env).1).map some := by
  cases ha : analysisPhase m W S rq with
  | error e =>
    refine ⟨?_, fun _ _ _ _ h => by cases h⟩
    simp only [evalStep, ha]; exact hS
  | ok res =>
    obtain ⟨fn, env, fis', paths⟩ := res
    obtain ⟨named, refs0, fis, r, P⟩ := analysisPhase_inv ha
    by_cases hs : Stage.eval ∈ rq.stages
    · have hU := U.find hW P.hfind
      -- the root call is chained: all its arguments are known
      obtain ⟨ev, io, sv, b, d, ret, a⟩ := analyse_inv (fuel := W.funs.length + 1) P.hana
      obtain ⟨pa, hpa⟩ := buildReturnSig_argPairs a.hret
      obtain ⟨kvs, hall⟩ := argPairs_allSome hpa rfl
      have hch := root_chain U W hU hrq.1 hrq.2 P.hnamed hall P.hbind
      have hsig : fis'.retSig = fis.retSig := by rw [P.hfis]; cases entryPathOf rq fn <;> rfl
      have hsubs' : fis'.subs = fis.subs := by rw [P.hfis]; cases entryPathOf rq fn <;> rfl
      obtain ⟨k1, k2⟩ := (pathsOK_iff paths fis').mp ((allStorePaths_ok fis' [] paths P.hpaths).2 paths (fun _ _ h => h))
      rw [hsubs'] at k2
      rw [hsig] at k1
      -- the result and the store before the commit of the paths
      have key : ∀ p, ∃ (res : Except XErr RVal) (st : XSt),
          (evalStep m W S rq).value = res.map some ∧
          ((evalStep m W S rq).store = st.store ∨ (evalStep m W S rq).store = st.store.sync paths) ∧
          res = (plainFn W W.fuel p fn env).1 ∧ Sound U m x st.store := by
        intro p
        simp only [evalStep, ha, hs, not_true_eq_false, if_false]
        rw [hsig]
        cases hb : sgGet S.blobs fis.retSig with
        | some v =>
          refine ⟨.ok v, { store := S }, ?_, ?_, (served_right hS hW hx hU hch P.hana hb p).symm, hS⟩
          · rfl
          · simp only; split <;> simp
        | none =>
          simp only
          obtain ⟨s1, s2⟩ := sim_fn U m x W paths hW hx W.fuel fn ⟨named, none⟩ env refs0 [] fis r { store := S } p hU hch P.hana k2 hS
          cases hr : runFn W paths W.fuel { store := S } fn env with
          | mk rv st =>
            rw [hr] at s1 s2
            simp only at s1 s2
            cases rv with
            | error e => exact ⟨.error e, st, rfl, Or.inl rfl, s1, s2⟩
            | ok v =>
              simp only
              cases hp : fis'.storePath with
              | none =>
                refine ⟨.ok v, st, rfl, ?_, s1, s2⟩
                simp only; split <;> simp
              | some pth =>
                simp only [k1 pth hp]
                refine ⟨.ok v, { st with store := st.store.storeBlob fis.retSig v }, rfl, ?_, s1,
                  Sound.storeBlob s2 hW hx hU hch P.hana s1.symm⟩
                simp only; split <;> simp
      refine ⟨?_, ?_⟩
      · obtain ⟨res, st, _, h2, _, h4⟩ := key { kept := [] }
        rcases h2 with h2 | h2 <;> rw [h2]
        · exact h4
        · exact h4.sync paths
      · intro fn' env' fis'' paths' heq _ p
        simp only [Except.ok.injEq, Prod.mk.injEq] at heq
        obtain ⟨rfl, rfl, _, _⟩ := heq
        obtain ⟨res, st, h1, _, h3, _⟩ := key p
        rw [h1, h3]
    · refine ⟨?_, fun _ _ _ _ _ h => absurd h hs⟩
      simp only [evalStep, ha, hs, not_false_eq_true, if_true]; exact hS

/-! ## Histories -/

/-- a step of a history: a version of the code and a request evaluated against the store left by the steps before -/
structure HStep where
  world : World
  rq : Request

def HStep.ok (U : Universe) (x : Nat) (s : HStep) : Prop :=
  U.world s.world ∧ s.world.extVersion = x ∧ U.request s.rq

/-- the store after a history (any sequence of versions of the code, requests, stage lists) -/
def runHistory (m : Nat) : PStore → List HStep → PStore
  | S, [] => S
  | S, s :: ss => runHistory m (evalStep m s.world S s.rq).store ss

theorem sound_empty (U : Universe) (m x : Nat) (noop : Bool) : Sound U m x { noop := noop } := by
  intro k v h; simp [sgGet] at h

theorem sound_history (U : Universe) (m x : Nat) : ∀ (hist : List HStep) (S : PStore), Sound U m x S →
    (∀ s ∈ hist, s.ok U x) → Sound U m x (runHistory m S hist)
  | [], _, hS, _ => hS
  | s :: ss, S, hS, hok => by
    obtain ⟨h1, h2, h3⟩ := hok s mem_cons_self
    exact sound_history U m x ss _ (memo_correct U m x s.world S s.rq h1 h2 h3 hS).1
      (fun t ht => hok t (mem_cons_of_mem _ ht))

/-- **`history_correct` (C01).** After *any* history of evaluations — of older versions of the code, with other
variable values and arguments, restricted to any stages, failed or not — starting from an empty store, an evaluation
of the current version returns exactly what plain execution of the current version returns. -/
theorem history_correct (U : Universe) (m x : Nat) (noop : Bool) (hist : List HStep) (hok : ∀ s ∈ hist, s.ok U x)
    (W : World) (rq : Request) (hW : U.world W) (hx : W.extVersion = x) (hrq : U.request rq)
    (fn : Fn) (env : Env) (fis : FIS) (paths : List (String × Sg))
    (ha : analysisPhase m W (runHistory m { noop := noop } hist) rq = .ok (fn, env, fis, paths))
    (hs : Stage.eval ∈ rq.stages) (p : PSt) :
    (evalStep m W (runHistory m { noop := noop } hist) rq).value = ((plainFn W W.fuel p fn env).1).map some :=
  (memo_correct U m x W _ rq hW hx hrq (sound_history U m x hist _ (sound_empty U m x noop) hok)).2 fn env fis paths ha hs p

end Dds
