import DdsProofs.Memo
/-!
# Non-vacuity of `memo_correct` / `history_correct`

A concrete universe (two versions of a two-function pipeline: the callee's body is edited between them), a proof
that it satisfies every hypothesis of `Universe`, and a history on which the theorems apply: version 1 is
evaluated, then version 2 against the same store. The model's own computation of that history (kernel-evaluated)
shows the analysis succeeding, the second evaluation re-running the edited function and the values being the
plain ones.
-/
namespace Dds.Example
open Dds List

def leafA : Fn :=
  { name := "f1", lines := ["def f1(a):", "    return term('f1#0', a)", ""], tag := "f1#0",
    params := [{ name := "a" }], storePath := none, vars := [], exts := [], items := [], fails := none, usesExt := false }

def leafB : Fn :=
  { name := "f1", lines := ["def f1(a):", "    return term('f1#1', a)", ""], tag := "f1#1",
    params := [{ name := "a" }], storePath := none, vars := [], exts := [], items := [], fails := none, usesExt := false }

def root : Fn :=
  { name := "f0",
    lines := ["def f0():", "    r0 = dds.keep('/p', f1, 1)", "    r1 = dds.keep('/q', f1, rt(r0))", "    return term('f0#0', r0, r1)", ""],
    tag := "f0#0", params := [], storePath := none, vars := [], exts := [],
    items := [.keep "/p" "f1" [.const (.int 1)] [] [none] [] 1,
              .keep "/q" "f1" [.other] [] [some { rs := [0], ps := [] }] [] 2],
    fails := none, usesExt := false }

def W1 : World := { funs := [root, leafA], extVersion := 0 }
def W2 : World := { funs := [root, leafB], extVersion := 0 }
def rq : Request := { kind := .eval, fn := "f0" }

def U : Universe where
  fns f := f = root ∨ f = leafA ∨ f = leafB
  vals v := v = .int 1
  avals v := v = .int 1
  faithful := by
    intro f g hf hg h
    rcases hf with rfl | rfl | rfl <;> rcases hg with rfl | rfl | rfl <;>
      first | rfl | (exact absurd h (by decide))
  varsInj := by intro v w hv hw _; rw [hv, hw]
  argsInj := by intro v w hv hw _; rw [hv, hw]
  varsIn := by
    intro f hf nv h
    rcases hf with rfl | rfl | rfl <;> simp [root, leafA, leafB] at h
  varNames := by
    intro f hf
    rcases hf with rfl | rfl | rfl <;> simp [root, leafA, leafB]
  noLoads := by
    intro f hf it h
    rcases hf with rfl | rfl | rfl
    · simp only [root, mem_cons, not_mem_nil, or_false] at h
      rcases h with rfl | rfl <;> simp [Item.noLoad]
    · simp [leafA] at h
    · simp [leafB] at h
  constsIn := by
    intro f hf it h v hv
    rcases hf with rfl | rfl | rfl
    · simp only [root, mem_cons, not_mem_nil, or_false] at h
      rcases h with rfl | rfl
      · simpa [Item.hasConst] using hv
      · simp [Item.hasConst] at hv
    · simp [leafA] at h
    · simp [leafB] at h
  defaultsIn := by
    intro f hf p hp d hd
    rcases hf with rfl | rfl | rfl
    · simp [root] at hp
    · simp only [leafA, mem_cons, not_mem_nil, or_false] at hp; subst hp; simp at hd
    · simp only [leafB, mem_cons, not_mem_nil, or_false] at hp; subst hp; simp at hd
  plainParams := by
    intro f hf
    rcases hf with rfl | rfl | rfl <;> decide
  paramNames := by
    intro f hf
    rcases hf with rfl | rfl | rfl <;> simp [root, leafA, leafB]
  noCtxParam := by
    intro f hf p hp
    rcases hf with rfl | rfl | rfl
    · simp [root] at hp
    · simp only [leafA, mem_cons, not_mem_nil, or_false] at hp; subst hp; decide
    · simp only [leafB, mem_cons, not_mem_nil, or_false] at hp; subst hp; decide
  sorted := by
    intro f hf
    rcases hf with rfl | rfl | rfl <;> simp [root, leafA, leafB, Item.line]
  lineBound := by
    intro f hf it h
    rcases hf with rfl | rfl | rfl
    · simp only [root, mem_cons, not_mem_nil, or_false] at h
      rcases h with rfl | rfl <;> simp [Item.line, root]
    · simp [leafA] at h
    · simp [leafB] at h
  prefixFaithful := by
    intro f g n hf hg h
    rcases hf with rfl | rfl | rfl <;> rcases hg with rfl | rfl | rfl
    all_goals first
      | exact ⟨rfl, rfl⟩
      | (exfalso; cases n <;> simp [root, leafA, leafB, take] at h)
      | (cases n with
         | zero => exact ⟨rfl, by simp [leafA, leafB]⟩
         | succ k => exfalso; cases k <;> simp [leafA, leafB, take] at h)

theorem world1 : U.world W1 := by
  intro f hf
  simp only [W1, mem_cons, not_mem_nil, or_false] at hf
  rcases hf with rfl | rfl
  · exact Or.inl rfl
  · exact Or.inr (Or.inl rfl)

theorem world2 : U.world W2 := by
  intro f hf
  simp only [W2, mem_cons, not_mem_nil, or_false] at hf
  rcases hf with rfl | rfl
  · exact Or.inl rfl
  · exact Or.inr (Or.inr rfl)

theorem request_ok : U.request rq := ⟨fun a h => by simp [rq] at h, fun a h => by simp [rq] at h⟩

/-- the history: version 1 evaluated on an empty store -/
def hist : List HStep := [⟨W1, rq⟩]

theorem hist_ok : ∀ s ∈ hist, s.ok U 0 := by
  intro s hs
  simp only [hist, mem_cons, not_mem_nil, or_false] at hs
  subst hs
  exact ⟨world1, rfl, request_ok⟩

def valueIs (o : Outcome) (s : String) : Bool :=
  match o.value with
  | .ok (some (.str t)) => t == s
  | _ => false

def phaseOk (r : Except DdsErr (Fn × Env × FIS × List (String × Sg))) : Bool :=
  match r with | .ok _ => true | .error _ => false

/-- the analysis accepts both evaluations of the history (the hypotheses of `history_correct` are met) … -/
example : phaseOk (analysisPhase 100 W1 {} rq) = true := by decide +kernel
example : phaseOk (analysisPhase 100 W2 (runHistory 100 {} hist) rq) = true := by decide +kernel

/-- … the first evaluation computes everything, the second one — of the edited version, against the store the first
one left — re-runs the edited function (both kept calls of it) and returns the new values, not the stored ones -/
example : valueIs (evalStep 100 W1 {} rq) "f0#0(f1#0(1),f1#0(rt(f1#0(1))))" = true := by decide +kernel
example : valueIs (evalStep 100 W2 (runHistory 100 {} hist) rq) "f0#0(f1#1(1),f1#1(rt(f1#1(1))))" = true := by decide +kernel
example : (evalStep 100 W2 (runHistory 100 {} hist) rq).log = ["f0", "f1", "f1"] := by decide +kernel
/-- re-evaluating version 1 after version 2: the blobs of version 1 are still there and are served -/
example : (evalStep 100 W1 (runHistory 100 {} (hist ++ [⟨W2, rq⟩])) rq).log = ["f0"] := by decide +kernel
example : valueIs (evalStep 100 W1 (runHistory 100 {} (hist ++ [⟨W2, rq⟩])) rq) "f0#0(f1#0(1),f1#0(rt(f1#0(1))))" = true := by
  decide +kernel

/-- `history_correct` instantiated: whatever the analysis computed, the value is the plain one -/
example (fn : Fn) (env : Env) (fis : FIS) (paths : List (String × Sg))
    (ha : analysisPhase 100 W2 (runHistory 100 {} hist) rq = .ok (fn, env, fis, paths)) (p : PSt) :
    (evalStep 100 W2 (runHistory 100 {} hist) rq).value = ((plainFn W2 W2.fuel p fn env).1).map some :=
  history_correct U 100 0 false hist hist_ok W2 rq world2 rfl request_ok fn env fis paths ha (by decide) p

end Dds.Example
