import DdsProofs.History
/-!
# Non-vacuity of `memo_correct` / `history_value`

A concrete universe: two versions of a pipeline (the body of the callee `f1` is edited between them) and a reader that
loads one of the paths the pipeline keeps. A proof that it satisfies every hypothesis of `Universe`, and a history on
which the theorems apply: version 1 of the pipeline is evaluated, the reader is evaluated (it loads `/q`, committed by the
evaluation before), version 2 of the pipeline is evaluated against the same store, and the reader again. The model's own
computation of that history (kernel-evaluated) shows the analysis succeeding, the edited function re-run, the reader
re-run because the path it loads serves another result, and the values being the plain ones.
-/
namespace Dds.Example
open Dds List

def leafA : Fn :=
  { name := "f1", lines := ["def f1(a):", "    return term('f1#0', a)", ""], tag := "f1#0",
    params := [{ name := "a" }], storePath := none, vars := [], exts := [], items := [], fails := none, usesExt := false }

def leafB : Fn :=
  { name := "f1", lines := ["def f1(a):", "    return term('f1#1', a)", ""], tag := "f1#1",
    params := [{ name := "a" }], storePath := none, vars := [], exts := [], items := [], fails := none, usesExt := false }

def root : Fn :=
  { name := "f0",
    lines := ["def f0():", "    r0 = dds.keep('/p', f1, 1)", "    r1 = dds.keep('/q', f1, rt(r0))", "    return term('f0#0', r0, r1)", ""],
    tag := "f0#0", params := [], storePath := none, vars := [], exts := [],
    items := [.keep "/p" "f1" [.const (.int 1)] [] [none] [] 1,
              .keep "/q" "f1" [.other] [] [some { rs := [0], ps := [] }] [] 2],
    fails := none, usesExt := false }

/-- the reader: `r0 = dds.load('/q')` -/
def reader : Fn :=
  { name := "c0", lines := ["def c0():", "    r0 = dds.load('/q')", "    return term('c0#0', r0)", ""], tag := "c0#0",
    params := [], storePath := none, vars := [], exts := [], items := [.load "/q" 1], fails := none, usesExt := false }

def W1 : World := { funs := [root, leafA, reader], extVersion := 0 }
def W2 : World := { funs := [root, leafB, reader], extVersion := 0 }
def rq : Request := { kind := .eval, fn := "f0" }
def rqR : Request := { kind := .keep "/c", fn := "c0" }

def U : Universe where
  fns f := f = root ∨ f = leafA ∨ f = leafB ∨ f = reader
  vals v := v = .int 1
  avals v := v = .int 1
  faithful := by
    intro f g hf hg h
    rcases hf with rfl | rfl | rfl | rfl <;> rcases hg with rfl | rfl | rfl | rfl <;>
      first | rfl | (exact absurd h (by decide))
  varsInj := by intro v w hv hw _; rw [hv, hw]
  argsInj := by intro v w hv hw _; rw [hv, hw]
  varsIn := by
    intro f hf nv h
    rcases hf with rfl | rfl | rfl | rfl <;> simp [root, leafA, leafB, reader] at h
  varNames := by
    intro f hf
    rcases hf with rfl | rfl | rfl | rfl <;> simp [root, leafA, leafB, reader]
  noEval := by
    intro f hf it h
    rcases hf with rfl | rfl | rfl | rfl
    · simp only [root, mem_cons, not_mem_nil, or_false] at h
      rcases h with rfl | rfl <;> simp [Item.isEval]
    · simp [leafA] at h
    · simp [leafB] at h
    · simp only [reader, mem_cons, not_mem_nil, or_false] at h
      subst h; simp [Item.isEval]
  constsIn := by
    intro f hf it h v hv
    rcases hf with rfl | rfl | rfl | rfl
    · simp only [root, mem_cons, not_mem_nil, or_false] at h
      rcases h with rfl | rfl
      · simpa [Item.hasConst] using hv
      · simp [Item.hasConst] at hv
    · simp [leafA] at h
    · simp [leafB] at h
    · simp only [reader, mem_cons, not_mem_nil, or_false] at h
      subst h; simp [Item.hasConst] at hv
  defaultsIn := by
    intro f hf p hp d hd
    rcases hf with rfl | rfl | rfl | rfl
    · simp [root] at hp
    · simp only [leafA, mem_cons, not_mem_nil, or_false] at hp; subst hp; simp at hd
    · simp only [leafB, mem_cons, not_mem_nil, or_false] at hp; subst hp; simp at hd
    · simp [reader] at hp
  plainParams := by
    intro f hf
    rcases hf with rfl | rfl | rfl | rfl <;> decide
  paramNames := by
    intro f hf
    rcases hf with rfl | rfl | rfl | rfl <;> simp [root, leafA, leafB, reader]
  noCtxParam := by
    intro f hf p hp
    rcases hf with rfl | rfl | rfl | rfl
    · simp [root] at hp
    · simp only [leafA, mem_cons, not_mem_nil, or_false] at hp; subst hp; decide
    · simp only [leafB, mem_cons, not_mem_nil, or_false] at hp; subst hp; decide
    · simp [reader] at hp
  sorted := by
    intro f hf
    rcases hf with rfl | rfl | rfl | rfl <;> simp [root, leafA, leafB, reader, Item.line]
  lineBound := by
    intro f hf it h
    rcases hf with rfl | rfl | rfl | rfl
    · simp only [root, mem_cons, not_mem_nil, or_false] at h
      rcases h with rfl | rfl <;> simp [Item.line, root]
    · simp [leafA] at h
    · simp [leafB] at h
    · simp only [reader, mem_cons, not_mem_nil, or_false] at h
      subst h; simp [Item.line, reader]
  prefixFaithful := by
    intro f g n hf hg h
    rcases hf with rfl | rfl | rfl | rfl <;> rcases hg with rfl | rfl | rfl | rfl
    all_goals first
      | exact ⟨rfl, rfl⟩
      | (exfalso; cases n <;> simp [root, leafA, leafB, reader, take] at h)
      | (cases n with
         | zero => exact ⟨rfl, by simp [leafA, leafB]⟩
         | succ k => exfalso; cases k <;> simp [leafA, leafB, take] at h)

theorem world1 : U.world W1 := by
  intro f hf
  simp only [W1, mem_cons, not_mem_nil, or_false] at hf
  rcases hf with rfl | rfl | rfl
  · exact Or.inl rfl
  · exact Or.inr (Or.inl rfl)
  · exact Or.inr (Or.inr (Or.inr rfl))

theorem world2 : U.world W2 := by
  intro f hf
  simp only [W2, mem_cons, not_mem_nil, or_false] at hf
  rcases hf with rfl | rfl | rfl
  · exact Or.inl rfl
  · exact Or.inr (Or.inr (Or.inl rfl))
  · exact Or.inr (Or.inr (Or.inr rfl))

/-- `keep` is applied to `f1` only, which is not a data function -/
theorem keepsPlain1 : W1.keepsPlain := by
  intro f hf it hit path g args kwargs rtA rtK l e h hfind
  simp only [W1, mem_cons, not_mem_nil, or_false] at hf
  rcases hf with rfl | rfl | rfl
  · simp only [root, mem_cons, not_mem_nil, or_false] at hit
    rcases hit with rfl | rfl
    all_goals
      simp only [Item.keep.injEq] at e
      obtain ⟨_, rfl, _⟩ := e
      simp [World.find, W1, root, leafA] at hfind
      subst hfind; rfl
  · simp [leafA] at hit
  · simp only [reader, mem_cons, not_mem_nil, or_false] at hit
    subst hit; cases e

theorem keepsPlain2 : W2.keepsPlain := by
  intro f hf it hit path g args kwargs rtA rtK l e h hfind
  simp only [W2, mem_cons, not_mem_nil, or_false] at hf
  rcases hf with rfl | rfl | rfl
  · simp only [root, mem_cons, not_mem_nil, or_false] at hit
    rcases hit with rfl | rfl
    all_goals
      simp only [Item.keep.injEq] at e
      obtain ⟨_, rfl, _⟩ := e
      simp [World.find, W2, root, leafB] at hfind
      subst hfind; rfl
  · simp [leafB] at hit
  · simp only [reader, mem_cons, not_mem_nil, or_false] at hit
    subst hit; cases e

theorem ctx1 : EvalCtx U 0 W1 := ⟨world1, rfl, keepsPlain1⟩
theorem ctx2 : EvalCtx U 0 W2 := ⟨world2, rfl, keepsPlain2⟩

theorem request_ok : U.request rq := ⟨fun a h => by simp [rq] at h, fun a h => by simp [rq] at h⟩
theorem requestR_ok : U.request rqR := ⟨fun a h => by simp [rqR] at h, fun a h => by simp [rqR] at h⟩

/-- the history: version 1 of the pipeline, the reader, version 2 of the pipeline -/
def hist : List HStep := [⟨W1, rq⟩, ⟨W1, rqR⟩, ⟨W2, rq⟩]

def h0 : HState := { store := {}, kept := [] }

/-- every evaluation of the history is of a version of the universe, and loads only paths committed before it -/
theorem hist_ok : histOK U 100 0 h0 hist := by
  refine ⟨⟨ctx1, request_ok⟩, externalLoads_of_check (by decide +kernel), ?_⟩
  refine ⟨⟨ctx1, requestR_ok⟩, externalLoads_of_check (by decide +kernel), ?_⟩
  exact ⟨⟨ctx2, request_ok⟩, externalLoads_of_check (by decide +kernel), trivial⟩

def valueIs (o : Outcome) (s : String) : Bool :=
  match o.value with
  | .ok (some (.str t)) => t == s
  | _ => false

def phaseOk (r : Except DdsErr (Fn × Env × FIS × List (String × Sg))) : Bool :=
  match r with | .ok _ => true | .error _ => false

/-- the analysis accepts the evaluations (the hypotheses of `history_value` are met) … -/
example : phaseOk (analysisPhase 100 W1 {} rq) = true := by decide +kernel
example : phaseOk (analysisPhase 100 W2 (runHist 100 h0 hist).store rqR) = true := by decide +kernel
example : extLoadsB (analysisPhase 100 W2 (runHist 100 h0 hist).store rqR) = true := by decide +kernel

/-- … the first evaluation computes everything; the reader sees the value kept at `/q` … -/
example : valueIs (evalStep 100 W1 {} rq) "f0#0(f1#0(1),f1#0(rt(f1#0(1))))" = true := by decide +kernel
example : valueIs (evalStep 100 W1 (runHist 100 h0 [⟨W1, rq⟩]).store rqR) "c0#0(f1#0(rt(f1#0(1))))" = true := by decide +kernel
/-- … the evaluation of the edited version re-runs the edited function (both kept calls of it) … -/
example : (evalStep 100 W2 (runHist 100 h0 [⟨W1, rq⟩, ⟨W1, rqR⟩]).store rq).log = ["f0", "f1", "f1"] := by decide +kernel
/-- … and the reader, whose code did not change, is re-run because `/q` serves another result: it returns the new value,
not the stored one -/
example : (evalStep 100 W2 (runHist 100 h0 hist).store rqR).log = ["c0"] := by decide +kernel
example : valueIs (evalStep 100 W2 (runHist 100 h0 hist).store rqR) "c0#0(f1#1(rt(f1#1(1))))" = true := by decide +kernel
/-- evaluated once more, the reader is served from the store -/
example : (evalStep 100 W2 (runHist 100 h0 (hist ++ [⟨W2, rqR⟩])).store rqR).log = [] := by decide +kernel

/-- `history_value` instantiated: whatever the analysis computed, the value of the reader after the history is the plain
one, from the values plain execution has kept -/
example (fn : Fn) (env : Env) (fis : FIS) (paths : List (String × Sg))
    (ha : analysisPhase 100 W2 (runHist 100 h0 hist).store rqR = .ok (fn, env, fis, paths))
    (hext : ∀ p ∈ fis.allLoads, External paths p) :
    (evalStep 100 W2 (runHist 100 h0 hist).store rqR).value =
      ((plainFn W2 W2.fuel { kept := (runHist 100 h0 hist).kept } fn env).1).map some :=
  history_value U 100 0 false hist hist_ok W2 rqR ctx2 requestR_ok ha hext (by decide)

end Dds.Example
