import DdsModel.Order
namespace Dds.Order

/-- **the calls of an expression are analysed in the order in which Python makes them** (called functions given by name) -/
theorem dds_order_eq : ∀ (e : CE), funcSimple e = true → ddsOrder e = pyOrder e
  | .atom, _ => rfl
  | .call i f as, h => by
    cases f with
    | atom =>
      simp only [funcSimple, Bool.true_and] at h
      simp [ddsOrder, pyOrder, dds_order_eq as h]
    | call _ _ _ => simp [funcSimple] at h
    | pair _ _ => simp [funcSimple] at h
  | .pair a b, h => by
    simp only [funcSimple, Bool.and_eq_true] at h
    simp [ddsOrder, pyOrder, dds_order_eq a h.1, dds_order_eq b h.2]

/-- whatever the called functions are, the same calls are analysed -/
theorem dds_order_perm : ∀ (e : CE), (ddsOrder e).Perm (pyOrder e)
  | .atom => List.Perm.refl _
  | .call i f as => by
    simp only [ddsOrder, pyOrder]
    have h1 := dds_order_perm f
    have h2 := dds_order_perm as
    calc (ddsOrder as ++ [i] ++ ddsOrder f).Perm (ddsOrder f ++ (ddsOrder as ++ [i])) := List.perm_append_comm
      _ |>.Perm (pyOrder f ++ (pyOrder as ++ [i])) := (h1.append (h2.append (List.Perm.refl _)))
      _ = pyOrder f ++ pyOrder as ++ [i] := by simp
  | .pair a b => by
    simp only [ddsOrder, pyOrder]
    exact (dds_order_perm a).append (dds_order_perm b)

/-- `g(h())`, the argument of `keep('/p', g, h())`: before the fix `g` was analysed before `h`, so `h` was not in its context -/
def nested : CE := .call 0 .atom (.call 1 .atom .atom)

theorem old_order_differs : pyOrder nested = [1, 0] ∧ oldOrder nested = [0, 1] ∧ ddsOrder nested = [1, 0] := by decide

end Dds.Order
