import DdsModel.Paths
/-! Lemmas for C11 (overlap detection). -/
namespace Dds
open List

theorem mem_insertStr {a s : String} : ∀ {l : List String}, a ∈ insertStr s l ↔ a = s ∨ a ∈ l
  | [] => by simp [insertStr]
  | t :: ts => by
    simp only [insertStr]
    split
    · rename_i h; subst h; simp
    · split
      · simp
      · simp only [mem_cons, mem_insertStr (l := ts)]
        constructor
        · rintro (h | h | h) <;> simp [h]
        · rintro (h | h | h) <;> simp [h]

theorem mem_sortDedup {a : String} : ∀ {l : List String}, a ∈ sortDedup l ↔ a ∈ l
  | [] => by simp [sortDedup]
  | s :: ss => by simp [sortDedup, mem_insertStr, mem_sortDedup (l := ss)]

theorem mem_tailsOf {k : String} {r : Segs} : ∀ {ps : List Segs}, r ∈ tailsOf k ps ↔ (k :: r) ∈ ps
  | [] => by simp [tailsOf]
  | [] :: ps => by simp [tailsOf, mem_tailsOf (ps := ps)]
  | (s :: t) :: ps => by
    simp only [tailsOf]
    split
    · rename_i h; subst h
      simp [mem_tailsOf (ps := ps)]
    · rename_i h
      simp only [mem_tailsOf (ps := ps), mem_cons, cons.injEq]
      constructor
      · intro h'; exact Or.inr h'
      · rintro (⟨h1, _⟩ | h')
        · exact absurd h1.symm h
        · exact h'

theorem mem_headsOf {k : String} {ps : List Segs} : k ∈ headsOf ps ↔ ∃ r, (k :: r) ∈ ps := by
  simp only [headsOf, mem_filterMap]
  constructor
  · rintro ⟨p, hp, hh⟩
    cases p with
    | nil => simp at hh
    | cons s r => simp at hh; subst hh; exact ⟨r, hp⟩
  · rintro ⟨r, hr⟩; exact ⟨k :: r, hr, rfl⟩

theorem flatMapL_ne_nil {α β} (f : α → List β) : ∀ (l : List α), flatMapL f l ≠ [] ↔ ∃ a ∈ l, f a ≠ []
  | [] => by simp [flatMapL]
  | a :: as => by
    have ih := flatMapL_ne_nil f as
    simp only [flatMapL, ne_eq, append_eq_nil_iff, Classical.not_and_iff_not_or_not, mem_cons, exists_eq_or_imp]
    simp only [ne_eq] at ih
    rw [ih]

def nonEmptyOf (ps : List Segs) : List Segs := ps.filter (fun p => !p.isEmpty)

theorem mem_nonEmptyOf {p : Segs} {ps : List Segs} : p ∈ nonEmptyOf ps ↔ p ∈ ps ∧ p ≠ [] := by
  simp [nonEmptyOf, mem_filter]

theorem tailsOf_nonEmptyOf (k : String) (ps : List Segs) : tailsOf k (nonEmptyOf ps) = tailsOf k ps := by
  induction ps with
  | nil => rfl
  | cons p ps ih =>
    cases p with
    | nil => simpa [nonEmptyOf, tailsOf] using ih
    | cons s r =>
      have : nonEmptyOf ((s :: r) :: ps) = (s :: r) :: nonEmptyOf ps := by simp [nonEmptyOf]
      rw [this]; simp only [tailsOf]; split <;> simp [ih]

theorem headsOf_nonEmptyOf_mem {k : String} {ps : List Segs} : k ∈ headsOf (nonEmptyOf ps) ↔ ∃ r, (k :: r) ∈ ps := by
  rw [mem_headsOf]
  constructor
  · rintro ⟨r, hr⟩; exact ⟨r, (mem_nonEmptyOf.mp hr).1⟩
  · rintro ⟨r, hr⟩; exact ⟨r, mem_nonEmptyOf.mpr ⟨hr, by simp⟩⟩

theorem length_filter_lt_iff (ps : List Segs) : ps.length > (nonEmptyOf ps).length ↔ [] ∈ ps := by
  induction ps with
  | nil => simp [nonEmptyOf]
  | cons p ps ih =>
    have hle : (nonEmptyOf ps).length ≤ ps.length := length_filter_le _ _
    cases p with
    | nil =>
      have : nonEmptyOf ([] :: ps) = nonEmptyOf ps := by simp [nonEmptyOf]
      rw [this]; simp; omega
    | cons s r =>
      have : nonEmptyOf ((s :: r) :: ps) = (s :: r) :: nonEmptyOf ps := by simp [nonEmptyOf]
      rw [this]
      simp only [length_cons, gt_iff_lt, Nat.add_lt_add_iff_right, mem_cons]
      constructor
      · intro h; exact Or.inr (ih.mp h)
      · rintro (h | h)
        · cases h
        · exact ih.mpr h

theorem nonEmptyOf_length_pos_iff (ps : List Segs) : (nonEmptyOf ps).length > 0 ↔ ∃ q ∈ ps, q ≠ [] := by
  rw [gt_iff_lt, length_pos_iff_exists_mem]
  constructor
  · rintro ⟨q, hq⟩; exact ⟨q, mem_nonEmptyOf.mp hq⟩
  · rintro ⟨q, hq⟩; exact ⟨q, mem_nonEmptyOf.mpr hq⟩

/-- some path of the list is a strict prefix (segment-wise) of another -/
def Overlap (ps : List Segs) : Prop := ∃ p ∈ ps, ∃ q ∈ ps, p <+: q ∧ p ≠ q

theorem overlap_iff (ps : List Segs) :
    Overlap ps ↔ ([] ∈ ps ∧ ∃ q ∈ ps, q ≠ []) ∨ ∃ k, Overlap (tailsOf k ps) := by
  constructor
  · rintro ⟨p, hp, q, hq, hpre, hne⟩
    cases p with
    | nil => exact Or.inl ⟨hp, q, hq, fun h => hne h.symm⟩
    | cons k p' =>
      cases q with
      | nil => simp at hpre
      | cons k' q' =>
        rw [cons_prefix_cons] at hpre
        obtain ⟨hk, hpre⟩ := hpre
        subst hk
        exact Or.inr ⟨k, p', mem_tailsOf.mpr hp, q', mem_tailsOf.mpr hq, hpre, fun h => hne (by rw [h])⟩
  · rintro (⟨h0, q, hq, hqne⟩ | ⟨k, p', hp, q', hq, hpre, hne⟩)
    · exact ⟨[], h0, q, hq, nil_prefix, fun h => hqne h.symm⟩
    · exact ⟨k :: p', mem_tailsOf.mp hp, k :: q', mem_tailsOf.mp hq, by simpa [cons_prefix_cons] using hpre,
        fun h => hne (by simpa using h)⟩

theorem ntl_succ (fuel : Nat) (ps : List Segs) (pre : Option Segs) :
    ntl (fuel + 1) ps pre =
      (match pre with
        | some p => if ps.length > (nonEmptyOf ps).length ∧ (nonEmptyOf ps).length > 0 then [p] else []
        | none => []) ++
      flatMapL (fun k => ntl fuel (tailsOf k (nonEmptyOf ps)) (some (pre.getD [] ++ [k])))
        (sortDedup (headsOf (nonEmptyOf ps))) := rfl

theorem ntl_rec_iff (fuel : Nat) (ps : List Segs) (pre : Option Segs)
    (ih : ∀ (qs : List Segs) (pr : Segs), (∀ p ∈ qs, p.length < fuel) → (ntl fuel qs (some pr) ≠ [] ↔ Overlap qs))
    (hlen : ∀ p ∈ ps, p.length < fuel + 1) :
    flatMapL (fun k => ntl fuel (tailsOf k (nonEmptyOf ps)) (some (pre.getD [] ++ [k])))
        (sortDedup (headsOf (nonEmptyOf ps))) ≠ [] ↔ ∃ k, Overlap (tailsOf k ps) := by
  rw [flatMapL_ne_nil]
  have hl : ∀ k, ∀ r ∈ tailsOf k ps, r.length < fuel := by
    intro k r hr
    have := hlen _ (mem_tailsOf.mp hr)
    simp at this; omega
  constructor
  · rintro ⟨k, _, hk⟩
    rw [tailsOf_nonEmptyOf, ih _ _ (hl k)] at hk
    exact ⟨k, hk⟩
  · rintro ⟨k, hk⟩
    have hk' := hk
    obtain ⟨p', hp, _⟩ := hk
    refine ⟨k, mem_sortDedup.mpr (headsOf_nonEmptyOf_mem.mpr ⟨p', mem_tailsOf.mp hp⟩), ?_⟩
    rw [tailsOf_nonEmptyOf, ih _ _ (hl k)]
    exact hk'

theorem ntl_some_iff : ∀ (fuel : Nat) (ps : List Segs) (pre : Segs), (∀ p ∈ ps, p.length < fuel) →
    (ntl fuel ps (some pre) ≠ [] ↔ Overlap ps)
  | 0, ps, pre, h => by
    have : ps = [] := by
      cases ps with
      | nil => rfl
      | cons p ps => exact absurd (h p mem_cons_self) (by omega)
    subst this
    simp [ntl, Overlap]
  | fuel + 1, ps, pre, h => by
    have hrec := ntl_rec_iff fuel ps (some pre) (ntl_some_iff fuel) h
    rw [ntl_succ, ne_eq, append_eq_nil_iff, Classical.not_and_iff_not_or_not, overlap_iff]
    simp only [ne_eq] at hrec
    rw [hrec]
    apply or_congr _ Iff.rfl
    rw [← length_filter_lt_iff, ← nonEmptyOf_length_pos_iff]
    simp only []
    split
    · simp_all
    · rename_i hn; simp only [not_true_eq_false, false_iff]; exact hn

theorem mem_le_maxLen {p : Segs} : ∀ {ps : List Segs}, p ∈ ps → p.length ≤ maxLen ps
  | [], h => by cases h
  | q :: qs, h => by
    simp only [maxLen]
    rcases mem_cons.mp h with rfl | h
    · omega
    · have := mem_le_maxLen h; omega

/-! ## One spelling for one path (`DDSPathUtils._normalized`) -/

theorem split_seg (sep : Char) (s rest cur : List Char) (h : sep ∉ s) :
    splitChars sep (s ++ rest) cur = splitChars sep rest (s.reverse ++ cur) := by
  induction s generalizing cur with
  | nil => simp
  | cons c s ih =>
    have hc : c ≠ sep := fun e => h (by simp [e])
    have hs : sep ∉ s := fun e => h (by simp [e])
    simp only [List.cons_append, splitChars, hc, if_false, ih (c :: cur) hs, List.reverse_cons, List.append_assoc, List.nil_append]

theorem split_join (ss : List (List Char)) (h : ∀ s ∈ ss, s ≠ [] ∧ '/' ∉ s) (cur : List Char) :
    (splitChars '/' (joinC ss) cur).filter (fun s => !s.isEmpty) = (if cur.isEmpty then [] else [cur.reverse]) ++ ss := by
  induction ss generalizing cur with
  | nil => cases cur <;> simp [joinC, splitChars]
  | cons s rest ih =>
    have hs := h s (by simp)
    have hrest : ∀ t ∈ rest, t ≠ [] ∧ '/' ∉ t := fun t ht => h t (by simp [ht])
    cases rest with
    | nil =>
      have := split_seg '/' s [] [] hs.2
      simp only [List.append_nil] at this
      cases cur <;> simp [joinC, splitChars, this, hs.1]
    | cons t rest' =>
      have e : joinC (s :: t :: rest') = '/' :: (s ++ joinC (t :: rest')) := by simp [joinC]
      rw [e]
      simp only [splitChars, if_true, List.filter_cons]
      rw [split_seg '/' s _ [] hs.2, List.append_nil, ih hrest s.reverse]
      have : s.reverse.isEmpty = false := by cases s with | nil => exact absurd rfl hs.1 | cons a b => simp
      cases cur <;> simp [this]

/-- what `split` produces holds no separator -/
theorem split_no_sep (sep : Char) : ∀ (cs cur : List Char), sep ∉ cur → ∀ s ∈ splitChars sep cs cur, sep ∉ s
  | [], cur, hc, s, hs => by
    simp only [splitChars, mem_singleton] at hs
    subst hs; simpa using hc
  | c :: cs, cur, hc, s, hs => by
    by_cases h : c = sep
    · simp only [splitChars, h, if_true, mem_cons] at hs
      rcases hs with rfl | hs
      · simpa using hc
      · exact split_no_sep sep cs [] (by simp) s hs
    · simp only [splitChars, h, if_false] at hs
      exact split_no_sep sep cs (c :: cur) (by simp [hc, Ne.symm h]) s hs

/-- the character-level segments of a string -/
def segsC (p : String) : List (List Char) := (splitChars '/' p.toList []).filter (fun s => !s.isEmpty)

/-- **one spelling, the same segments**: the normalised spelling of a path has the segments of the path, whatever repeated or
trailing separators the path was written with - so the checks made on kept paths, which compare segments, see through spellings -/
theorem segs_normPath (p : String) : segsC (normPath p) = segsC p := by
  unfold normPath segsC
  rw [String.toList_ofList]
  have h : ∀ s ∈ (splitChars '/' p.toList []).filter (fun s => !s.isEmpty), s ≠ [] ∧ '/' ∉ s := by
    intro s hs
    rw [mem_filter] at hs
    refine ⟨?_, split_no_sep '/' _ [] (by simp) s hs.1⟩
    intro e; subst e; simp at hs
  have := split_join _ h []
  simpa using this

/-- normalising twice changes nothing -/
theorem normPath_idem (p : String) : normPath (normPath p) = normPath p := by
  have := segs_normPath p
  unfold segsC at this
  show String.ofList (joinC (filter (fun s => !s.isEmpty) (splitChars '/' (normPath p).toList []))) = normPath p
  rw [this]
  rfl


theorem pathSegs_eq (p : String) : pathSegs p = (segsC p).map String.ofList := by
  unfold pathSegs segsC
  induction splitChars '/' p.toList [] with
  | nil => rfl
  | cons s rest ih =>
    cases s with
    | nil => simpa using ih
    | cons c cs =>
      have : String.ofList (c :: cs) ≠ "" := by
        intro h
        have := congrArg String.toList h
        simp at this
      have ih' : filter (fun x => !decide (x = "")) (map String.ofList rest) = map String.ofList (filter (fun s => !s.isEmpty) rest) := by
        simpa using ih
      simp [ih']

/-- the segments the checks compare (`pathSegs`) do not depend on the spelling -/
theorem pathSegs_normPath (p : String) : pathSegs (normPath p) = pathSegs p := by
  rw [pathSegs_eq, pathSegs_eq, segs_normPath]


end Dds
