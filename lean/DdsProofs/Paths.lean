import DdsModel.Paths
/-! Lemmas for C11 (overlap detection). -/
namespace Dds
open List

theorem mem_insertStr {a s : String} : ∀ {l : List String}, a ∈ insertStr s l ↔ a = s ∨ a ∈ l
  | [] => by simp [insertStr]
  | t :: ts => by
    simp only [insertStr]
    split
    · rename_i h; subst h; simp
    · split
      · simp
      · simp only [mem_cons, mem_insertStr (l := ts)]
        constructor
        · rintro (h | h | h) <;> simp [h]
        · rintro (h | h | h) <;> simp [h]

theorem mem_sortDedup {a : String} : ∀ {l : List String}, a ∈ sortDedup l ↔ a ∈ l
  | [] => by simp [sortDedup]
  | s :: ss => by simp [sortDedup, mem_insertStr, mem_sortDedup (l := ss)]

theorem mem_tailsOf {k : String} {r : Segs} : ∀ {ps : List Segs}, r ∈ tailsOf k ps ↔ (k :: r) ∈ ps
  | [] => by simp [tailsOf]
  | [] :: ps => by simp [tailsOf, mem_tailsOf (ps := ps)]
  | (s :: t) :: ps => by
    simp only [tailsOf]
    split
    · rename_i h; subst h
      simp [mem_tailsOf (ps := ps)]
    · rename_i h
      simp only [mem_tailsOf (ps := ps), mem_cons, cons.injEq]
      constructor
      · intro h'; exact Or.inr h'
      · rintro (⟨h1, _⟩ | h')
        · exact absurd h1.symm h
        · exact h'

theorem mem_headsOf {k : String} {ps : List Segs} : k ∈ headsOf ps ↔ ∃ r, (k :: r) ∈ ps := by
  simp only [headsOf, mem_filterMap]
  constructor
  · rintro ⟨p, hp, hh⟩
    cases p with
    | nil => simp at hh
    | cons s r => simp at hh; subst hh; exact ⟨r, hp⟩
  · rintro ⟨r, hr⟩; exact ⟨k :: r, hr, rfl⟩

theorem flatMapL_ne_nil {α β} (f : α → List β) : ∀ (l : List α), flatMapL f l ≠ [] ↔ ∃ a ∈ l, f a ≠ []
  | [] => by simp [flatMapL]
  | a :: as => by
    have ih := flatMapL_ne_nil f as
    simp only [flatMapL, ne_eq, append_eq_nil_iff, Classical.not_and_iff_not_or_not, mem_cons, exists_eq_or_imp]
    simp only [ne_eq] at ih
    rw [ih]

def nonEmptyOf (ps : List Segs) : List Segs := ps.filter (fun p => !p.isEmpty)

theorem mem_nonEmptyOf {p : Segs} {ps : List Segs} : p ∈ nonEmptyOf ps ↔ p ∈ ps ∧ p ≠ [] := by
  simp [nonEmptyOf, mem_filter]

theorem tailsOf_nonEmptyOf (k : String) (ps : List Segs) : tailsOf k (nonEmptyOf ps) = tailsOf k ps := by
  induction ps with
  | nil => rfl
  | cons p ps ih =>
    cases p with
    | nil => simpa [nonEmptyOf, tailsOf] using ih
    | cons s r =>
      have : nonEmptyOf ((s :: r) :: ps) = (s :: r) :: nonEmptyOf ps := by simp [nonEmptyOf]
      rw [this]; simp only [tailsOf]; split <;> simp [ih]

theorem headsOf_nonEmptyOf_mem {k : String} {ps : List Segs} : k ∈ headsOf (nonEmptyOf ps) ↔ ∃ r, (k :: r) ∈ ps := by
  rw [mem_headsOf]
  constructor
  · rintro ⟨r, hr⟩; exact ⟨r, (mem_nonEmptyOf.mp hr).1⟩
  · rintro ⟨r, hr⟩; exact ⟨r, mem_nonEmptyOf.mpr ⟨hr, by simp⟩⟩

theorem length_filter_lt_iff (ps : List Segs) : ps.length > (nonEmptyOf ps).length ↔ [] ∈ ps := by
  induction ps with
  | nil => simp [nonEmptyOf]
  | cons p ps ih =>
    have hle : (nonEmptyOf ps).length ≤ ps.length := length_filter_le _ _
    cases p with
    | nil =>
      have : nonEmptyOf ([] :: ps) = nonEmptyOf ps := by simp [nonEmptyOf]
      rw [this]; simp; omega
    | cons s r =>
      have : nonEmptyOf ((s :: r) :: ps) = (s :: r) :: nonEmptyOf ps := by simp [nonEmptyOf]
      rw [this]
      simp only [length_cons, gt_iff_lt, Nat.add_lt_add_iff_right, mem_cons]
      constructor
      · intro h; exact Or.inr (ih.mp h)
      · rintro (h | h)
        · cases h
        · exact ih.mpr h

theorem nonEmptyOf_length_pos_iff (ps : List Segs) : (nonEmptyOf ps).length > 0 ↔ ∃ q ∈ ps, q ≠ [] := by
  rw [gt_iff_lt, length_pos_iff_exists_mem]
  constructor
  · rintro ⟨q, hq⟩; exact ⟨q, mem_nonEmptyOf.mp hq⟩
  · rintro ⟨q, hq⟩; exact ⟨q, mem_nonEmptyOf.mpr hq⟩

/-- some path of the list is a strict prefix (segment-wise) of another -/
def Overlap (ps : List Segs) : Prop := ∃ p ∈ ps, ∃ q ∈ ps, p <+: q ∧ p ≠ q

theorem overlap_iff (ps : List Segs) :
    Overlap ps ↔ ([] ∈ ps ∧ ∃ q ∈ ps, q ≠ []) ∨ ∃ k, Overlap (tailsOf k ps) := by
  constructor
  · rintro ⟨p, hp, q, hq, hpre, hne⟩
    cases p with
    | nil => exact Or.inl ⟨hp, q, hq, fun h => hne h.symm⟩
    | cons k p' =>
      cases q with
      | nil => simp at hpre
      | cons k' q' =>
        rw [cons_prefix_cons] at hpre
        obtain ⟨hk, hpre⟩ := hpre
        subst hk
        exact Or.inr ⟨k, p', mem_tailsOf.mpr hp, q', mem_tailsOf.mpr hq, hpre, fun h => hne (by rw [h])⟩
  · rintro (⟨h0, q, hq, hqne⟩ | ⟨k, p', hp, q', hq, hpre, hne⟩)
    · exact ⟨[], h0, q, hq, nil_prefix, fun h => hqne h.symm⟩
    · exact ⟨k :: p', mem_tailsOf.mp hp, k :: q', mem_tailsOf.mp hq, by simpa [cons_prefix_cons] using hpre,
        fun h => hne (by simpa using h)⟩

theorem ntl_succ (fuel : Nat) (ps : List Segs) (pre : Option Segs) :
    ntl (fuel + 1) ps pre =
      (match pre with
        | some p => if ps.length > (nonEmptyOf ps).length ∧ (nonEmptyOf ps).length > 0 then [p] else []
        | none => []) ++
      flatMapL (fun k => ntl fuel (tailsOf k (nonEmptyOf ps)) (some (pre.getD [] ++ [k])))
        (sortDedup (headsOf (nonEmptyOf ps))) := rfl

theorem ntl_rec_iff (fuel : Nat) (ps : List Segs) (pre : Option Segs)
    (ih : ∀ (qs : List Segs) (pr : Segs), (∀ p ∈ qs, p.length < fuel) → (ntl fuel qs (some pr) ≠ [] ↔ Overlap qs))
    (hlen : ∀ p ∈ ps, p.length < fuel + 1) :
    flatMapL (fun k => ntl fuel (tailsOf k (nonEmptyOf ps)) (some (pre.getD [] ++ [k])))
        (sortDedup (headsOf (nonEmptyOf ps))) ≠ [] ↔ ∃ k, Overlap (tailsOf k ps) := by
  rw [flatMapL_ne_nil]
  have hl : ∀ k, ∀ r ∈ tailsOf k ps, r.length < fuel := by
    intro k r hr
    have := hlen _ (mem_tailsOf.mp hr)
    simp at this; omega
  constructor
  · rintro ⟨k, _, hk⟩
    rw [tailsOf_nonEmptyOf, ih _ _ (hl k)] at hk
    exact ⟨k, hk⟩
  · rintro ⟨k, hk⟩
    have hk' := hk
    obtain ⟨p', hp, _⟩ := hk
    refine ⟨k, mem_sortDedup.mpr (headsOf_nonEmptyOf_mem.mpr ⟨p', mem_tailsOf.mp hp⟩), ?_⟩
    rw [tailsOf_nonEmptyOf, ih _ _ (hl k)]
    exact hk'

theorem ntl_some_iff : ∀ (fuel : Nat) (ps : List Segs) (pre : Segs), (∀ p ∈ ps, p.length < fuel) →
    (ntl fuel ps (some pre) ≠ [] ↔ Overlap ps)
  | 0, ps, pre, h => by
    have : ps = [] := by
      cases ps with
      | nil => rfl
      | cons p ps => exact absurd (h p mem_cons_self) (by omega)
    subst this
    simp [ntl, Overlap]
  | fuel + 1, ps, pre, h => by
    have hrec := ntl_rec_iff fuel ps (some pre) (ntl_some_iff fuel) h
    rw [ntl_succ, ne_eq, append_eq_nil_iff, Classical.not_and_iff_not_or_not, overlap_iff]
    simp only [ne_eq] at hrec
    rw [hrec]
    apply or_congr _ Iff.rfl
    rw [← length_filter_lt_iff, ← nonEmptyOf_length_pos_iff]
    simp only []
    split
    · simp_all
    · rename_i hn; simp only [not_true_eq_false, false_iff]; exact hn

theorem mem_le_maxLen {p : Segs} : ∀ {ps : List Segs}, p ∈ ps → p.length ≤ maxLen ps
  | [], h => by cases h
  | q :: qs, h => by
    simp only [maxLen]
    rcases mem_cons.mp h with rfl | h
    · omega
    · have := mem_le_maxLen h; omega

end Dds
