import DdsModel.Eval
import DdsProofs.Args
/-!
# C01 — memoised evaluation returns exactly what plain execution would return

Stage 1 of the proof (DESIGN §5 C01, §10): the operational facts about `evalStep` that the history
induction rests on. (`sig_sound` — a signature determines the plain value — is stage 2.)

* `served_only_on_hit`: a kept call returns a stored blob only if a blob sits under exactly the key the
  analysis fixed for that path; otherwise it runs the function and stores the result under that key;
* `rejected_runs_nothing`: an evaluation whose analysis fails executes nothing and leaves the store as it was;
* `root_hit_runs_nothing`: if the root's signature has a blob, no user code runs.
-/
namespace Dds.C01
open Dds

theorem served_only_on_hit (requested : List (String × Sg)) (rec : RunRec) (st : XSt) (path : String) (g : Fn)
    (env : Env) (key : Sg) (hk : aget requested path = some key) :
    (∀ v, sgGet st.store.blobs key = some v → keepExec requested rec st path g env = (.ok v, st)) ∧
    (sgGet st.store.blobs key = none → ∀ v st', rec st g env = (.ok v, st') →
      keepExec requested rec st path g env = (.ok v, { st' with store := st'.store.storeBlob key v })) ∧
    (sgGet st.store.blobs key = none → ∀ e st', rec st g env = (.error e, st') →
      keepExec requested rec st path g env = (.error e, st')) := by
  refine ⟨?_, ?_, ?_⟩
  · intro v hv; simp [keepExec, hk, hv]
  · intro hn v st' hr; simp [keepExec, hk, hn, hr]
  · intro hn e st' hr; simp [keepExec, hk, hn, hr]

theorem rejected_runs_nothing (m : Nat) (W : World) (S : PStore) (rq : Request) (e : DdsErr)
    (h : analysisPhase m W S rq = .error e) :
    (evalStep m W S rq).log = [] ∧ (evalStep m W S rq).store = S ∧
    (evalStep m W S rq).value = .error (.dds e) := by
  simp [evalStep, h]

theorem root_hit_runs_nothing (m : Nat) (W : World) (S : PStore) (rq : Request)
    (fn : Fn) (env : Env) (fis : FIS) (paths : List (String × Sg)) (v : RVal)
    (h : analysisPhase m W S rq = .ok (fn, env, fis, paths)) (hs : Stage.eval ∈ rq.stages)
    (hb : sgGet S.blobs fis.retSig = some v) :
    (evalStep m W S rq).log = [] ∧ (evalStep m W S rq).value = .ok (some v) := by
  simp [evalStep, h, hs, hb]

end Dds.C01
