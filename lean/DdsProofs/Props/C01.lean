import DdsModel.Eval
import DdsProofs.Args
import DdsProofs.Memo
import DdsProofs.History
import DdsProofs.MemoExample
import DdsProofs.Scope
import DdsProofs.Order
import DdsProofs.Imports
/-!
# C01 — memoised evaluation returns exactly what plain execution would return

The property, for the model's pipelines (items `call`, `callArgs`, `ref`, `keep`, `load`; literal, default, keyword and
run-time arguments; data functions; any nesting depth; any number of versions of the code), over a `Universe` of function
versions (hypotheses: the text determines the program; `dds_hash` injective on the values that occur — C05 says exactly
where it is not; distinct parameter names). The state of a history is the store together with the value plain execution
has kept at every path (`HState`):

* `sig_sound`       — two analysed calls with the same return signature, in any two versions, run from plain states
                      that hold, at every path the calls load, the blob of the signature the path resolved to, have the
                      same plain value;
* `memo_correct`    — one evaluation against a sound store whose committed paths hold what plain execution has kept
                      returns the plain value / raises the plain exception, leaves a sound store, loses no blob;
* `history_correct` — after any history (older versions, other values, restricted stages, failures) from an empty
                      store, real or noop, an evaluation returns what plain execution of the current version returns from
                      the values kept so far.
* `history_correct_loadfree` — the same for versions that never call `dds.load`, with no hypothesis on loads at all.
Non-vacuity: `DdsProofs/MemoExample.lean` (a concrete universe with two versions and a reader that loads, all
hypotheses proved, the history computed by the kernel).

PARTIAL — what the three theorems assume beyond the `Universe`: every evaluation loads only paths it does not itself
produce (`ExternalLoads`: the loaded paths resolve through the store, to what earlier evaluations committed), and an
explicit `keep` is not applied to a data function (`World.keepsPlain`). Loads of a path produced earlier *in the same
evaluation* are in the model and in the three-way execution of the check, not in these theorems; classes / lambdas are
outside the model.

Operational facts:

* `served_only_on_hit`: a kept call returns a stored blob only if a blob sits under exactly the key the
  analysis fixed for that path; otherwise it runs the function and stores the result under that key;
* `rejected_runs_nothing`: an evaluation whose analysis fails executes nothing and leaves the store as it was;
* `root_hit_runs_nothing`: if the root's signature has a blob, no user code runs.
-/
namespace Dds.C01
open Dds

theorem served_only_on_hit (requested : List (String × Sg)) (rec : RunRec) (st : XSt) (path : String) (g : Fn)
    (env : Env) (key : Sg) (hk : aget requested path = some key) :
    (∀ v, sgGet st.store.blobs key = some v → keepExec requested rec st path g env = (.ok v, st)) ∧
    (sgGet st.store.blobs key = none → ∀ v st', rec st g env = (.ok v, st') →
      keepExec requested rec st path g env = (.ok v, { st' with store := st'.store.storeBlob key v })) ∧
    (sgGet st.store.blobs key = none → ∀ e st', rec st g env = (.error e, st') →
      keepExec requested rec st path g env = (.error e, st')) := by
  refine ⟨?_, ?_, ?_⟩
  · intro v hv; simp [keepExec, hk, hv]
  · intro hn v st' hr; simp [keepExec, hk, hn, hr]
  · intro hn e st' hr; simp [keepExec, hk, hn, hr]

theorem rejected_runs_nothing (m : Nat) (W : World) (S : PStore) (rq : Request) (e : DdsErr)
    (h : analysisPhase m W S rq = .error e) :
    (evalStep m W S rq).log = [] ∧ (evalStep m W S rq).store = S ∧
    (evalStep m W S rq).value = .error (.dds e) := by
  simp [evalStep, h]

theorem root_hit_runs_nothing (m : Nat) (W : World) (S : PStore) (rq : Request)
    (fn : Fn) (env : Env) (fis : FIS) (paths : List (String × Sg)) (v : RVal)
    (h : analysisPhase m W S rq = .ok (fn, env, fis, paths)) (hs : Stage.eval ∈ rq.stages)
    (hb : sgGet S.blobs fis.retSig = some v) :
    (evalStep m W S rq).log = [] ∧ (evalStep m W S rq).value = .ok (some v) := by
  simp [evalStep, h, hs, hb]

/-- **a signature determines the plain value** (calls made inside evaluations of any two versions of the code; `Ω`: a
blob map; each plain state holds, at every path the call loads, the blob of the signature the path resolved to) -/
theorem sig_sound (U : Universe) (m : Nat) {Ω : Blobs} {W1 W2 : World} {fn1 fn2 : Fn} {ctx1 ctx2 : ArgCtx} {env1 env2 : Env}
    (c1 : Chain U m Ω W1 fn1 ctx1 env1) (c2 : Chain U m Ω W2 fn2 ctx2 env2)
    (hW1 : U.world W1) (hW2 : U.world W2) (hext : W1.extVersion = W2.extVersion) (hU1 : U.fns fn1) (hU2 : U.fns fn2)
    {fuel1 fuel2 : Nat} {refs1 refs2 : Refs} {stack1 stack2 : List String} {fis1 fis2 : FIS} {r1 r2 : Refs}
    (h1 : analyse m W1 fuel1 refs1 stack1 fn1 ctx1 = .ok (fis1, r1))
    (h2 : analyse m W2 fuel2 refs2 stack2 fn2 ctx2 = .ok (fis2, r2))
    (hs : fis1.retSig = fis2.retSig) (p1 p2 : PSt)
    (hl1 : FIS.loadsOK Ω p1.kept fis1) (hl2 : FIS.loadsOK Ω p2.kept fis2) :
    (plainFn W1 fuel1 p1 fn1 env1).1 = (plainFn W2 fuel2 p2 fn2 env2).1 :=
  sig_sound_full U m c1 c2 hW1 hW2 hext hU1 hU2 h1 h2 hs p1 p2 hl1 hl2

/-- **one evaluation against a sound store** whose committed paths hold what plain execution has kept (`K`): the value is
the plain one, from `K`; the store stays sound and loses no blob -/
theorem memo_correct (U : Universe) (m x : Nat) (W : World) (S : PStore) (K : LoadEnv) (rq : Request)
    (E : EvalCtx U x W) (hrq : U.request rq) (hS : Sound U m x S) (hPK : PathsKept S K)
    {fn : Fn} {env : Env} {fis' : FIS} {paths : List (String × Sg)}
    (ha : analysisPhase m W S rq = .ok (fn, env, fis', paths)) (hext : ∀ p ∈ fis'.allLoads, External paths p) :
    Sound U m x (evalStep m W S rq).store ∧ Extends S (evalStep m W S rq).store ∧
    (Stage.eval ∈ rq.stages →
      (evalStep m W S rq).value = ((plainFn W W.fuel { kept := K } fn env).1).map some) :=
  let h := Dds.memo_correct U m x W S K rq E hrq hS hPK ha hext
  ⟨h.1, h.2.1, h.2.2.1⟩

/-- the invariant of a history (sound store; closed, or noop without committed paths; every committed path resolves to
the blob plain execution has kept at the path) holds after every history from an empty store -/
theorem history_invariant (U : Universe) (m x : Nat) (noop : Bool) (hist : List HStep)
    (hok : histOK U m x { store := { noop := noop }, kept := [] } hist) :
    HInv U m x (runHist m { store := { noop := noop }, kept := [] } hist) :=
  hinv_history U m x hist _ (hinv_empty U m x noop) hok

/-- **C01 over histories**: whatever was evaluated earlier against the same store -/
theorem history_correct (U : Universe) (m x : Nat) (noop : Bool) (hist : List HStep)
    (hok : histOK U m x { store := { noop := noop }, kept := [] } hist)
    (W : World) (rq : Request) (E : EvalCtx U x W) (hrq : U.request rq)
    {fn : Fn} {env : Env} {fis : FIS} {paths : List (String × Sg)}
    (ha : analysisPhase m W (runHist m { store := { noop := noop }, kept := [] } hist).store rq = .ok (fn, env, fis, paths))
    (hext : ∀ p ∈ fis.allLoads, External paths p) (hs : Stage.eval ∈ rq.stages) :
    (evalStep m W (runHist m { store := { noop := noop }, kept := [] } hist).store rq).value =
      ((plainFn W W.fuel { kept := (runHist m { store := { noop := noop }, kept := [] } hist).kept } fn env).1).map some :=
  history_value U m x noop hist hok W rq E hrq ha hext hs

/-- **C01 for load-free pipelines, without any hypothesis on loads**: after any history of versions none of which calls
`dds.load`, an evaluation of such a version returns what plain execution returns -/
theorem history_correct_loadfree (U : Universe) (m x : Nat) (noop : Bool) (hist : List HStep)
    (hok : ∀ s ∈ hist, s.ok U x ∧ s.world.loadFree)
    (W : World) (rq : Request) (E : EvalCtx U x W) (hlf : W.loadFree) (hrq : U.request rq)
    {fn : Fn} {env : Env} {fis : FIS} {paths : List (String × Sg)}
    (ha : analysisPhase m W (runHist m { store := { noop := noop }, kept := [] } hist).store rq = .ok (fn, env, fis, paths))
    (hs : Stage.eval ∈ rq.stages) :
    (evalStep m W (runHist m { store := { noop := noop }, kept := [] } hist).store rq).value =
      ((plainFn W W.fuel { kept := (runHist m { store := { noop := noop }, kept := [] } hist).kept } fn env).1).map some :=
  history_value U m x noop hist (histOK_of_loadFree U m x hist _ hok) W rq E hrq ha
    (externalLoads_of_loadFree hlf _ rq fn env fis paths ha) hs

/-! ## Discovery of the module names of a function body (outside the pipeline model: real Python scoping)

The pipeline model takes the tracked variables and the callees of a function as given (`Fn.vars`, the items). Which names
of a body are module names at all is decided by the code from one set of local names (`DdsModel/Scope.lean`, the fragment
of Python with lambdas, comprehensions, assignment expressions, nested functions, `global` / `nonlocal`). -/

/-- **every module name the function reads is looked up, and nothing else**: the names the analysis looks up in the
module are, occurrence by occurrence, the names that Python's chain of scopes resolves to the module -/
theorem names_looked_up_are_module_reads (params : List String) (body : Scope.Stmt) :
    Scope.ddsNames params body = Scope.pyGlobalReads params body :=
  Scope.dds_names_eq params body

/-- the single set of local names the code keeps while it walks nested scopes decides what Python's chain of scopes decides -/
theorem one_set_of_locals_suffices (chain : List Scope.Sc) (x : String) :
    x ∈ Scope.flat chain ↔ Scope.isGlobal chain x = false :=
  Scope.mem_flat x chain

/-- the computation before the `fix:` commit (every name stored anywhere in the function is local everywhere) missed module
names: a module variable also used as the variable of a comprehension, or assigned in a nested function -/
theorem brute_force_locals_miss_module_names :
    ("X" ∈ Scope.pyGlobalReads [] Scope.shadowComp ∧ "X" ∉ Scope.oldNames [] Scope.shadowComp) ∧
    ("Z" ∈ Scope.pyGlobalReads [] Scope.shadowNested ∧ "Z" ∉ Scope.oldNames [] Scope.shadowNested) :=
  ⟨Scope.old_misses_comprehension, Scope.old_misses_nested⟩

/-! ## Names bound by import statements inside a function body (`DdsModel/Imports.lean`) -/

/-- **what a function reaches through the imports of its body is looked up, as Python resolves it**: the objects (full paths)
and the module names the analysis looks up are, occurrence by occurrence, those that Python's scoping rules give - for every
body whose imports are from accepted packages (`impsOK`: the other imports do not take part in the analysis). Imports bind in
their whole scope, are hidden by the nested scopes that bind the name, are not seen outside, and the object they denote is
looked up by its full name, which no name of the function can hide. -/
theorem imported_names_resolved_as_python_does (acc : Imports.Path → Bool) (params : List String)
    (body : Imports.Stmt) (hb : Imports.stmtOK acc body = true)
    (hi : Imports.impsOK acc (Imports.impsS body) = true) :
    Imports.ddsRefs acc params body = Imports.pyRefs params body :=
  Imports.dds_refs_eq acc params body hb hi

/-- a scope that binds one name to two objects, one of them accepted, is refused: the analysis cannot tell which one is used -/
theorem name_with_two_import_bindings_refused (acc : Imports.Path → Bool) (params : List String) (body : Imports.Stmt)
    (h : Imports.ambImps acc (Imports.impsS body) = true) : Imports.analyse acc params body = none :=
  Imports.analyse_refuses acc params body h

/-- ... and when no name has two bindings, the binding that is looked up is the only one the name has -/
theorem the_binding_looked_up_is_the_only_one (acc : Imports.Path → Bool)
    {imps : List (String × Imports.Path)} (hok : Imports.impsOK acc imps = true) (h : Imports.ambImps acc imps = false)
    {x : String} {p : Imports.Path} (hm : (x, p) ∈ imps) : imps.lookup x = some p :=
  Imports.lookup_unique acc hok h hm

/-- the computations before the `fix:` commits missed objects: without any resolution (the pinned tree) an imported name was
looked up in the module of the function; resolved in the order of the text, a use that precedes the import in the text was
missed, and the import of a nested function hid a module name of the enclosing one; written as a chain of attributes from the
root package, the path was hidden by a local variable with the name of that package -/
theorem earlier_resolutions_of_imports_were_wrong :
    (.path ["lz", "model"] ∈ Imports.pyRefs [] Imports.lazyImport ∧ .path ["lz", "model"] ∉ Imports.unresolvedRefs [] Imports.lazyImport) ∧
    (.path ["lz", "fast"] ∈ Imports.pyRefs [] Imports.useBeforeImport ∧
      .path ["lz", "fast"] ∉ Imports.textRefs Imports.accLz [] Imports.useBeforeImport) ∧
    (.glob "h" ∈ Imports.pyRefs [] Imports.nestedImport ∧ .glob "h" ∉ Imports.textRefs Imports.accLz [] Imports.nestedImport) ∧
    (.path ["lz", "fast"] ∈ Imports.pyRefs [] Imports.rootAsLocal ∧ .path ["lz", "fast"] ∉ Imports.chainRefs Imports.accLz [] Imports.rootAsLocal) :=
  ⟨Imports.unresolved_misses_import, Imports.text_order_misses_use_before_import, Imports.text_order_leaks_nested_import,
    Imports.chain_of_attributes_hidden_by_a_local⟩

/-! ## The order in which the calls of an expression are analysed (outside the pipeline model: calls nested in arguments) -/

/-- the context of a call is made of the calls analysed before it: the code analyses the calls of an expression in the order in
which Python makes them (the arguments before the call), when the called functions are given by name - the only form the analysis
understands -/
theorem calls_analysed_in_evaluation_order (e : Order.CE) (h : Order.funcSimple e = true) :
    Order.ddsOrder e = Order.pyOrder e :=
  Order.dds_order_eq e h

/-- before the `fix:` commit the call came before its arguments: in `g(h())` the call of `h` was not in the context of `g` -/
theorem call_before_arguments_was_wrong :
    Order.pyOrder Order.nested = [1, 0] ∧ Order.oldOrder Order.nested = [0, 1] ∧ Order.ddsOrder Order.nested = [1, 0] :=
  Order.old_order_differs

end Dds.C01
