import DdsModel.Eval
/-!
# C02 — nothing is recomputed unless something it depends on changed

Stage 1 (DESIGN §5 C02): the analysis reads the store **only** through the path table entries of the
paths the evaluation loads without producing them, so every step that leaves those entries and the
analysed code alone fixes the same signatures; and a kept call whose key has a blob runs no body.
(`cone_eq_iff_sig_eq` and the history theorem are stage 2.)
-/
namespace Dds.C02
open Dds

/-- the analysis phase depends on the store through its path table only -/
theorem analysis_reads_paths_only (m : Nat) (W : World) (S S' : PStore) (rq : Request)
    (h : S.paths = S'.paths) : analysisPhase m W S rq = analysisPhase m W S' rq := by
  have hf : ∀ ps, fetchPaths S ps = fetchPaths S' ps := by
    intro ps
    induction ps with
    | nil => rfl
    | cons p ps ih => simp only [fetchPaths, h, ih]
  simp only [analysisPhase, hf]

/-- a kept call whose key has a blob executes nothing: the log and the store are untouched -/
theorem hit_runs_nothing (requested : List (String × Sg)) (rec : RunRec) (st : XSt) (path : String) (g : Fn)
    (env : Env) (key : Sg) (v : RVal) (hk : aget requested path = some key)
    (hb : sgGet st.store.blobs key = some v) :
    keepExec requested rec st path g env = (.ok v, st) := by
  simp [keepExec, hk, hb]

/-- storing blobs never changes the path table (so a failed or restricted run cannot shift signatures) -/
theorem storeBlob_paths (S : PStore) (k : Sg) (v : RVal) : (S.storeBlob k v).paths = S.paths := by
  unfold PStore.storeBlob; split <;> rfl

end Dds.C02
