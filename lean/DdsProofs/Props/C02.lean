import DdsModel.Eval
import DdsProofs.Cone
import DdsProofs.Closure
import DdsProofs.Fuel
/-!
# C02 — nothing is recomputed unless something it depends on changed

Stage 1 (DESIGN §5 C02): the analysis reads the store **only** through the path table entries of the
paths the evaluation loads without producing them, so every step that leaves those entries and the
analysed code alone fixes the same signatures; and a kept call whose key has a blob runs no body.

Stage 2 (over the whole model, loads included unless said otherwise):
* `outside_cone_invisible` — if two versions of the code agree on every function the evaluated function can reach
  (the cone of DESIGN §4.1, closed under call / reference / keep) and on the non-accepted code, an evaluation has the
  *same outcome* in both: same value, same executed bodies (so nothing is recomputed because of an edit outside the
  cone), same signatures, same store — for versions with equally many definitions; `outside_cone_invisible'` removes that
  restriction: the second version may have any number of further definitions (`Fuel.lean`: the recursion bound of the
  model is immaterial — a result that is not the model's own fuel error does not change with more fuel).
* `reeval_runs_nothing` — after a successful evaluation of a kept function on a real store, every evaluation whose
  analysis gives the root the same signature (identical re-evaluation, another process, a revert back to this version,
  the same code elsewhere) executes no body at all and returns the stored value.
* `reeval_recomputes_nothing` (pipeline model incl. loads, over a `Universe`, real store) — also when the root is *not* kept
  (`dds.eval` of a plain function): after a successful evaluation, an evaluation — of any version, any request —
  whose root gets the same signature finds every kept call of its tree in the store and writes no blob: no kept function is
  recomputed. It rests on `Closure.lean`: the blob set is closed under kept sub-calls (`Closed`, preserved by every
  evaluation), the signature determines the shape of the interaction tree (`sig_shape`), a successful run covers its tree
  (`cov_fn`), a covered tree runs without writing (`hit_fn`).
-/
namespace Dds.C02
open Dds

/-- the analysis phase depends on the store through its path table only -/
theorem analysis_reads_paths_only (m : Nat) (W : World) (S S' : PStore) (rq : Request)
    (h : S.paths = S'.paths) : analysisPhase m W S rq = analysisPhase m W S' rq := by
  have hf : ∀ ps, fetchPaths S ps = fetchPaths S' ps := by
    intro ps
    induction ps with
    | nil => rfl
    | cons p ps ih => simp only [fetchPaths, h, ih]
  simp only [analysisPhase, hf]

/-- a kept call whose key has a blob executes nothing: the log and the store are untouched -/
theorem hit_runs_nothing (requested : List (String × Sg)) (rec : RunRec) (st : XSt) (path : String) (g : Fn)
    (env : Env) (key : Sg) (v : RVal) (hk : aget requested path = some key)
    (hb : sgGet st.store.blobs key = some v) :
    keepExec requested rec st path g env = (.ok v, st) := by
  simp [keepExec, hk, hb]

/-- storing blobs never changes the path table (so a failed or restricted run cannot shift signatures) -/
theorem storeBlob_paths (S : PStore) (k : Sg) (v : RVal) : (S.storeBlob k v).paths = S.paths := by
  unfold PStore.storeBlob; split <;> rfl

/-- **edits outside the cone are invisible**: same outcome (value, executed bodies, signatures, store) -/
theorem outside_cone_invisible {m : Nat} {W1 W2 : World} {cone : List String} (hag : AgreeOn W1 W2 cone)
    (hcl : ConeClosed W1 cone) (hfuel : W1.fuel = W2.fuel) (hx : W1.extVersion = W2.extVersion)
    (S : PStore) (rq : Request) (hrq : rq.fn ∈ cone) :
    evalStep m W1 S rq = evalStep m W2 S rq :=
  evalStep_congr hag hcl hfuel hx S rq hrq

/-- the same when the second version has further (unrelated) definitions: adding definitions changes no outcome -/
theorem outside_cone_invisible' {m : Nat} {W1 W2 : World} {cone : List String} (hag : AgreeOn W1 W2 cone)
    (hcl : ConeClosed W1 cone) (hx : W1.extVersion = W2.extVersion) (hle : W1.funs.length ≤ W2.funs.length)
    (S : PStore) (rq : Request) (hrq : rq.fn ∈ cone)
    (hv : (evalStep m W1 S rq).value ≠ .error (.dds .outOfFuel)) :
    evalStep m W1 S rq = evalStep m W2 S rq :=
  evalStep_congr_le hag hcl hx hle S rq hrq hv

/-- **re-evaluation executes nothing**: once a kept function has been evaluated, any evaluation (of any version, any
request) whose root gets the same signature runs no body and returns the stored value -/
theorem reeval_runs_nothing {m : Nat} {W : World} {S : PStore} {rq : Request} {fn : Fn} {env : Env} {fis : FIS}
    {paths : List (String × Sg)} (ha : analysisPhase m W S rq = .ok (fn, env, fis, paths)) (hs : Stage.eval ∈ rq.stages)
    (hn : S.noop = false) {p : String} (hp : fis.storePath = some p) {v : RVal}
    (hv : (evalStep m W S rq).value = .ok (some v))
    {W' : World} {rq' : Request} {fn' : Fn} {env' : Env} {fis' : FIS} {paths' : List (String × Sg)}
    (ha' : analysisPhase m W' (evalStep m W S rq).store rq' = .ok (fn', env', fis', paths'))
    (hs' : Stage.eval ∈ rq'.stages) (hsig : fis'.retSig = fis.retSig) :
    (evalStep m W' (evalStep m W S rq).store rq').log = [] ∧
    (evalStep m W' (evalStep m W S rq).store rq').value = .ok (some v) := by
  have hb := root_blob_stored ha hs hn hp hv
  rw [← hsig] at hb
  generalize (evalStep m W S rq).store = S' at ha' hb ⊢
  simp [evalStep, ha', hs', hb]

/-- **re-evaluation recomputes nothing**, kept root or not -/
theorem reeval_recomputes_nothing (U : Universe) (m : Nat) (W W' : World) (S : PStore) (rq rq' : Request)
    (hW : U.world W) (hW' : U.world W') (hC : Closed U m S) (hn : S.noop = false)
    {fn : Fn} {env : Env} {fis1 : FIS} {paths : List (String × Sg)}
    (ha : analysisPhase m W S rq = .ok (fn, env, fis1, paths)) (hs : Stage.eval ∈ rq.stages)
    {v : RVal} (hv : (evalStep m W S rq).value = .ok (some v))
    {fn' : Fn} {env' : Env} {fis2 : FIS} {paths' : List (String × Sg)}
    (ha' : analysisPhase m W' (evalStep m W S rq).store rq' = .ok (fn', env', fis2, paths'))
    (hsig : fis2.retSig = fis1.retSig) (hsp : fis2.storePath = fis1.storePath) :
    (evalStep m W' (evalStep m W S rq).store rq').store.blobs = (evalStep m W S rq).store.blobs :=
  reeval_writes_nothing U m W W' S rq rq' hW hW' hC hn ha hs hv ha' hsig hsp

/-- the store stays closed along any history from an empty real store (the hypothesis of `reeval_recomputes_nothing`) -/
theorem closed_along_history (U : Universe) (m : Nat) (hist : List HStep) (hok : ∀ s ∈ hist, U.world s.world) :
    Closed U m (runHistory m {} hist) ∧ (runHistory m {} hist).noop = false :=
  closed_history U m hist {} (closed_empty U m false) rfl hok

end Dds.C02
