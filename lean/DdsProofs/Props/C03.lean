import DdsModel.Eval
import Generated.Facts
import DdsProofs.SigInj
/-!
# C03 — signatures depend only on program content, never on the environment

What the model can carry (hash seed, working directory and on-disk location have no counterpart in it:
for those the claim rests on the byte-exact correspondence, DESIGN §5 C03):
* `flags_irrelevant`: the stage list, `extra_debug` and graph export do not enter the analysis;
* `store_irrelevant`: the store enters the analysis only through the committed keys of the paths the
  evaluation loads without producing them — when there is none, any two stores (of any kind, in any
  state) give the same signatures;
* `history_irrelevant`: the analysis is a function of the world, the request and those committed keys;
  no other state survives from earlier evaluations in the process (the model has no such state: since the
  `fix:` commit that removed the process-wide lookup, neither has the code — the correspondence runs
  every program after earlier evaluations and redefinitions in the same process);
* `sig_keys_table`: the vocabulary of signature keys is re-read from the source of `dds/introspect.py` on every run
  (every `HK(...)` expression): it is exactly the vocabulary of the model, whose six classes of `_build_return_sig`
  have pairwise different categories (`sig_key_classes`) — what `buildReturnSig_inj` (signature composition is
  injective) rests on. A new kind of key in the code makes this table, hence the build, fail.
-/
namespace Dds.C03
open Dds

theorem flags_irrelevant (m : Nat) (W : World) (S : PStore) (rq : Request) (stages : List Stage) (dbg g : Bool) :
    analysisPhase m W S { rq with stages := stages, extraDebug := dbg, exportGraph := g } = analysisPhase m W S rq := rfl

theorem fetchPaths_nil (S : PStore) : fetchPaths S [] = .ok [] := rfl

theorem store_irrelevant (m : Nat) (W : World) (S S' : PStore) (rq : Request)
    (hnoload : ∀ fn, W.find rq.fn = some fn → ∀ ind done, indirectFn W W.fuel [] ({}, []) fn = .ok (ind, done) → loadsToCheck ind = []) :
    analysisPhase m W S rq = analysisPhase m W S' rq := by
  unfold analysisPhase
  cases hf : W.find rq.fn with
  | none => rfl
  | some fn =>
    simp only []
    cases badEntryPath rq fn with
    | true => rfl
    | false =>
      simp only [Bool.false_eq_true, if_false]
      cases liftA (getArgCtx m fn.params rq.args rq.kwargs) with
      | error e => rfl
      | ok named =>
        simp only []
        cases hi : indirectFn W W.fuel [] ({}, []) fn with
        | error e => rfl
        | ok r =>
          obtain ⟨ind, done⟩ := r
          simp only [hnoload fn hf ind done hi, fetchPaths_nil]

theorem history_irrelevant (m : Nat) (W : World) (S S' : PStore) (rq : Request) (h : S.paths = S'.paths) :
    analysisPhase m W S rq = analysisPhase m W S' rq := by
  have hf : ∀ ps, fetchPaths S ps = fetchPaths S' ps := by
    intro ps
    induction ps with
    | nil => rfl
    | cons p ps ih => simp only [fetchPaths, h, ih]
  simp only [analysisPhase, hf]

/-- the signature-key vocabulary of the code (Generated/Facts.lean, regenerated from /repo) is the model's -/
theorem sig_keys_table : Facts.sigKeys =
    ["arg_*", "arg_context", "body_sig", "dep_*", "ext_dep_*", "ext_variable_*", "fun_dep_*", "function_input_hash",
     "function_inter_hash"] := by decide

/-- the six classes of keys of a return signature are told apart by their first characters, whatever follows the prefix -/
theorem sig_key_classes (n : String) :
    keyCat "body_sig" = 0 ∧ keyCat "arg_context" = 1 ∧ keyCat ("arg_" ++ n) = 1 ∧ keyCat ("dep_" ++ n) = 2 ∧
    keyCat ("fun_dep_" ++ n) = 3 ∧ keyCat ("ext_dep_" ++ n) = 4 ∧ keyCat ("ext_variable_" ++ n) = 5 :=
  ⟨keyCat_body, keyCat_argctx, keyCat_arg n, keyCat_dep n, keyCat_fun n, keyCat_extdep n, keyCat_extvar n⟩

end Dds.C03
