import DdsModel.Eval
/-!
# C03 — signatures depend only on program content, never on the environment

What the model can carry (hash seed, working directory and on-disk location have no counterpart in it:
for those the claim rests on the byte-exact correspondence, DESIGN §5 C03):
* `flags_irrelevant`: the stage list, `extra_debug` and graph export do not enter the analysis;
* `store_irrelevant`: the store enters the analysis only through the committed keys of the paths the
  evaluation loads without producing them — when there is none, any two stores (of any kind, in any
  state) give the same signatures;
* `history_irrelevant`: the analysis is a function of the world, the request and those committed keys;
  no other state survives from earlier evaluations in the process (the model has no such state: since the
  `fix:` commit that removed the process-wide lookup, neither has the code — the correspondence runs
  every program after earlier evaluations and redefinitions in the same process).
-/
namespace Dds.C03
open Dds

theorem flags_irrelevant (m : Nat) (W : World) (S : PStore) (rq : Request) (stages : List Stage) (dbg g : Bool) :
    analysisPhase m W S { rq with stages := stages, extraDebug := dbg, exportGraph := g } = analysisPhase m W S rq := rfl

theorem fetchPaths_nil (S : PStore) : fetchPaths S [] = .ok [] := rfl

theorem store_irrelevant (m : Nat) (W : World) (S S' : PStore) (rq : Request)
    (hnoload : ∀ fn, W.find rq.fn = some fn → ∀ ind done, indirectFn W W.fuel [] ({}, []) fn = .ok (ind, done) → loadsToCheck ind = []) :
    analysisPhase m W S rq = analysisPhase m W S' rq := by
  unfold analysisPhase
  cases hf : W.find rq.fn with
  | none => rfl
  | some fn =>
    simp only []
    cases badEntryPath rq fn with
    | true => rfl
    | false =>
      simp only [Bool.false_eq_true, if_false]
      cases liftA (getArgCtx m fn.params rq.args rq.kwargs) with
      | error e => rfl
      | ok named =>
        simp only []
        cases hi : indirectFn W W.fuel [] ({}, []) fn with
        | error e => rfl
        | ok r =>
          obtain ⟨ind, done⟩ := r
          simp only [hnoload fn hf ind done hi, fetchPaths_nil]

theorem history_irrelevant (m : Nat) (W : World) (S S' : PStore) (rq : Request) (h : S.paths = S'.paths) :
    analysisPhase m W S rq = analysisPhase m W S' rq := by
  have hf : ∀ ps, fetchPaths S ps = fetchPaths S' ps := by
    intro ps
    induction ps with
    | nil => rfl
    | cons p ps ih => simp only [fetchPaths, h, ih]
  simp only [analysisPhase, hf]

end Dds.C03
