import DdsModel.Eval
import DdsProofs.Lru
/-!
# C04 — a committed path serves the value of the latest evaluation that kept it

Stage 1: the path table after a commit. For every store state and every path ↦ key map with distinct
paths (the `OrderedDict` the analysis builds): every committed path resolves to its key (`commit_sets`),
every other path keeps what it had (`commit_frame`).
-/
namespace Dds.C04
open Dds List

theorem foldl_aset_frame (ps : List (String × Sg)) (acc : List (String × Sg)) (p : String)
    (h : ∀ pk ∈ ps, pk.1 ≠ p) :
    aget (ps.foldl (fun acc pk => aset acc pk.1 pk.2) acc) p = aget acc p := by
  induction ps generalizing acc with
  | nil => rfl
  | cons a ps ih =>
    simp only [foldl_cons]
    rw [ih _ (fun pk hpk => h pk (mem_cons_of_mem _ hpk))]
    exact aget_aset_ne _ _ _ _ (fun e => h a mem_cons_self e.symm)

theorem foldl_aset_sets (ps : List (String × Sg)) (acc : List (String × Sg)) (p : String) (k : Sg)
    (hm : (p, k) ∈ ps) (hnd : (ps.map Prod.fst).Nodup) :
    aget (ps.foldl (fun acc pk => aset acc pk.1 pk.2) acc) p = some k := by
  induction ps generalizing acc with
  | nil => cases hm
  | cons a ps ih =>
    simp only [map_cons, nodup_cons, mem_map, not_exists, not_and] at hnd
    simp only [foldl_cons]
    rcases mem_cons.mp hm with h | h
    · subst h
      rw [foldl_aset_frame ps _ p (fun pk hpk e => hnd.1 pk hpk e)]
      exact aget_aset_eq _ _ _
    · exact ih _ h hnd.2

/-- every path of the map resolves to its key after the commit -/
theorem commit_sets (S : PStore) (hn : S.noop = false) (ps : List (String × Sg)) (p : String) (k : Sg)
    (hm : (p, k) ∈ ps) (hnd : (ps.map Prod.fst).Nodup) : aget (S.sync ps).paths p = some k := by
  simp only [PStore.sync, hn]
  exact foldl_aset_sets ps S.paths p k hm hnd

/-- paths that the evaluation did not keep retain their previous content -/
theorem commit_frame (S : PStore) (ps : List (String × Sg)) (p : String) (h : ∀ pk ∈ ps, pk.1 ≠ p) :
    aget (S.sync ps).paths p = aget S.paths p := by
  unfold PStore.sync
  split
  · rfl
  · exact foldl_aset_frame ps S.paths p h

/-- committing never touches the blobs -/
theorem commit_blobs (S : PStore) (ps : List (String × Sg)) : (S.sync ps).blobs = S.blobs := by
  unfold PStore.sync; split <;> rfl

end Dds.C04
