import DdsModel.Eval
import DdsProofs.Lru
import DdsProofs.Closure
import DdsProofs.History
/-!
# C04 — a committed path serves the value of the latest evaluation that kept it

Stage 1: the path table after a commit (`DdsProofs/History.lean`). For every store state and every path ↦ key map with
distinct paths (the `OrderedDict` the analysis builds): every committed path resolves to its key (`commit_sets`), every other
path keeps what it had (`commit_frame`).

Stage 2, the value clause (over a `Universe`, real — non-noop — store; evaluations that do not themselves produce the paths
they load, see C01):
* `committed_value`: after a successful, complete evaluation against a sound and closed store, every path `p` the evaluation
  kept is committed to its signature `k`, a blob sits under `k`, and that blob is the right value of `k` (`Right`): the plain
  value of **every** call — in any version of the code — whose signature is `k`, in particular of the call kept at `p` in this
  evaluation. Loading the path (in the same process, later, elsewhere on the same store) returns that blob.
* `committed_is_kept` / `committed_is_kept_history`: after any history from an empty store, every committed path resolves to
  a blob that is exactly the value plain execution has kept at the path (the value `dds.load` is expected to return).
It rests on `Closure.lean`: the blob set is closed under kept sub-calls (`Closed`), a successful run covers the tree it
ran (`cov_fn`), hence every requested path has its blob (`requested_paths_stored`) — also when a parent was served from
the store and its children were not visited in this evaluation.
-/
namespace Dds.C04
open Dds List

/-- every path of the map resolves to its key after the commit -/
theorem commit_sets (S : PStore) (hn : S.noop = false) (ps : List (String × Sg)) (p : String) (k : Sg)
    (hm : (p, k) ∈ ps) (hnd : (ps.map Prod.fst).Nodup) : aget (S.sync ps).paths p = some k :=
  Dds.commit_sets S hn ps p k hm hnd

/-- paths that the evaluation did not keep retain their previous content -/
theorem commit_frame (S : PStore) (ps : List (String × Sg)) (p : String) (h : ∀ pk ∈ ps, pk.1 ≠ p) :
    aget (S.sync ps).paths p = aget S.paths p :=
  Dds.commit_frame S ps p h

/-- committing never touches the blobs -/
theorem commit_blobs (S : PStore) (ps : List (String × Sg)) : (S.sync ps).blobs = S.blobs := by
  unfold PStore.sync; split <;> rfl

theorem evalStep_store_sync {m : Nat} {W : World} {S : PStore} {rq : Request} {fn : Fn} {env : Env} {fis : FIS}
    {paths : List (String × Sg)} (ha : analysisPhase m W S rq = .ok (fn, env, fis, paths)) (hs : Stage.eval ∈ rq.stages)
    (hpc : Stage.pathCommit ∈ rq.stages) {v : RVal} (hv : (evalStep m W S rq).value = .ok (some v)) :
    ∃ S0 : PStore, (evalStep m W S rq).store = S0.sync paths ∧ (S.noop = false → S0.noop = false) := by
  simp only [evalStep, ha, hs, not_true_eq_false, if_false, hpc, if_true] at hv ⊢
  cases hb : sgGet S.blobs fis.retSig with
  | some w => exact ⟨S, by simp, fun h => h⟩
  | none =>
    simp only [hb] at hv ⊢
    have hno := runFn_noop W paths W.fuel { store := S } fn env
    cases hr : runFn W paths W.fuel { store := S } fn env with
    | mk rv st =>
      rw [hr] at hno
      simp only [hr] at hv ⊢
      cases rv with
      | error e => simp at hv
      | ok w =>
        simp only at hv ⊢ hno
        cases hp : fis.storePath with
        | none => exact ⟨st.store, by simp, fun h => by rw [hno]; exact h⟩
        | some pth =>
          simp only [hp] at hv ⊢
          cases hk : aget paths pth with
          | none => simp [hk] at hv
          | some key => exact ⟨st.store.storeBlob key w, by simp, fun h => by rw [storeBlob_noop, hno]; exact h⟩

/-- **the value clause**: a committed path resolves to a blob that is the right value of its signature — the plain value of
every call with that signature, in particular of the call kept there -/
theorem committed_value (U : Universe) (m x : Nat) (W : World) (S : PStore) (K : LoadEnv) (rq : Request)
    (E : EvalCtx U x W) (hrq : U.request rq) (hS : Sound U m x S) (hPK : PathsKept S K) (hC : Closed U m S) (hn : S.noop = false)
    {fn : Fn} {env : Env} {fis : FIS} {paths : List (String × Sg)}
    (ha : analysisPhase m W S rq = .ok (fn, env, fis, paths)) (hext : ∀ p ∈ fis.allLoads, External paths p)
    (hs : Stage.eval ∈ rq.stages)
    (hpc : Stage.pathCommit ∈ rq.stages) {v : RVal} (hv : (evalStep m W S rq).value = .ok (some v))
    (p : String) (k : Sg) (hp : aget paths p = some k) :
    aget (evalStep m W S rq).store.paths p = some k ∧
    ∃ w, sgGet (evalStep m W S rq).store.blobs k = some w ∧ Right U m x (evalStep m W S rq).store.blobs k w := by
  obtain ⟨_, _, _, _, P⟩ := analysisPhase_inv ha
  have hnd := allStorePaths_nodup fis [] paths P.hpaths (by simp)
  obtain ⟨S0, e0, n0⟩ := evalStep_store_sync ha hs hpc hv
  have hsome := requested_paths_stored U m W S rq E.hW hC hn ha hs hv p k hp
  have hsound := (Dds.memo_correct U m x W S K rq E hrq hS hPK ha hext).1
  refine ⟨?_, ?_⟩
  · rw [e0]; exact commit_sets S0 (n0 hn) paths p k (aget_mem hp) hnd
  · cases hw : sgGet (evalStep m W S rq).store.blobs k with
    | none => simp [hw] at hsome
    | some w => exact ⟨w, rfl, hsound k w hw⟩

/-- after one more evaluation, every committed path still resolves to the blob plain execution has kept at the path -/
theorem committed_is_kept (U : Universe) (m x : Nat) (h : HState) (W : World) (rq : Request)
    (E : EvalCtx U x W) (hrq : U.request rq) (hext : ExternalLoads m W h.store rq) (hI : HInv U m x h)
    (p : String) (k : Sg) (hp : aget (histStep m h W rq).store.paths p = some k) :
    ∃ v, sgGet (histStep m h W rq).store.blobs k = some v ∧ aget (histStep m h W rq).kept p = some v :=
  (hinv_step U m x h W rq E hrq hext hI).kept p k hp

/-- the value clause after any history from an empty store: a committed path resolves to the value plain execution has
kept there — what `dds.load` returns, in this process or another -/
theorem committed_is_kept_history (U : Universe) (m x : Nat) (noop : Bool) (hist : List HStep)
    (hok : histOK U m x { store := { noop := noop }, kept := [] } hist) (p : String) (k : Sg)
    (hp : aget (runHist m { store := { noop := noop }, kept := [] } hist).store.paths p = some k) :
    ∃ v, sgGet (runHist m { store := { noop := noop }, kept := [] } hist).store.blobs k = some v ∧
      aget (runHist m { store := { noop := noop }, kept := [] } hist).kept p = some v :=
  (hinv_history U m x hist _ (hinv_empty U m x noop) hok).kept p k hp

theorem aget_of_mem_nodup {α} : ∀ {l : List (String × α)} {k : String} {v : α},
    (k, v) ∈ l → (l.map Prod.fst).Nodup → aget l k = some v
  | (a, b) :: l, k, v, hm, hnd => by
    simp only [List.map_cons, List.nodup_cons, List.mem_map, not_exists, not_and] at hnd
    simp only [aget]
    rcases List.mem_cons.mp hm with h | h
    · simp only [Prod.mk.injEq] at h
      obtain ⟨rfl, rfl⟩ := h
      simp
    · by_cases hk : a = k
      · subst hk; exact absurd rfl (hnd.1 (a, v) h)
      · simp only [hk, if_false]; exact aget_of_mem_nodup h hnd.2

/-- **every path a completed evaluation commits has its result in the store** (closed real store). The code commits only the
paths whose blob is there (since the `fix:` commit for keeps that are not reached: a branch not taken, a loop that does not
run); on the programs of the model, where every keep found by the analysis is reached, that filter removes nothing: the
model's unfiltered `sync` is what the code does -/
theorem commit_filter_is_identity (U : Universe) (m : Nat) (W : World) (S : PStore) (rq : Request)
    (hW : U.world W) (hC : Closed U m S) (hn : S.noop = false)
    {fn : Fn} {env : Env} {fis : FIS} {paths : List (String × Sg)}
    (ha : analysisPhase m W S rq = .ok (fn, env, fis, paths)) (hs : Stage.eval ∈ rq.stages)
    {v : RVal} (hv : (evalStep m W S rq).value = .ok (some v)) :
    paths.filter (fun pk => (evalStep m W S rq).store.hasBlob pk.2) = paths := by
  obtain ⟨_, _, _, _, P⟩ := analysisPhase_inv ha
  have hnd := allStorePaths_nodup fis [] paths P.hpaths (by simp)
  apply List.filter_eq_self.mpr
  intro pk hpk
  obtain ⟨p, k⟩ := pk
  exact requested_paths_stored U m W S rq hW hC hn ha hs hv p k (aget_of_mem_nodup hpk hnd)

end Dds.C04
