import DdsModel.Eval
import DdsProofs.Lru
import DdsProofs.Closure
/-!
# C04 — a committed path serves the value of the latest evaluation that kept it

Stage 1: the path table after a commit. For every store state and every path ↦ key map with distinct
paths (the `OrderedDict` the analysis builds): every committed path resolves to its key (`commit_sets`),
every other path keeps what it had (`commit_frame`).

Stage 2, the value clause (load-free fragment of the model, over a `Universe`, real — non-noop — store):
* `committed_value`: after a successful, complete evaluation against a sound and closed store, every path `p` the evaluation
  kept is committed to its signature `k`, a blob sits under `k`, and that blob is the plain value of **every** call —
  in any version of the code — whose signature is `k`: in particular of the call kept at `p` in this evaluation. Loading
  the path (in the same process, later, elsewhere on the same store) returns that blob.
* `committed_value_history`: the same after any history from an empty store.
It rests on `Closure.lean`: the blob set is closed under kept sub-calls (`Closed`), a successful run covers the tree it
ran (`cov_fn`), hence every requested path has its blob (`requested_paths_stored`) — also when a parent was served from
the store and its children were not visited in this evaluation.
-/
namespace Dds.C04
open Dds List

theorem foldl_aset_frame (ps : List (String × Sg)) (acc : List (String × Sg)) (p : String)
    (h : ∀ pk ∈ ps, pk.1 ≠ p) :
    aget (ps.foldl (fun acc pk => aset acc pk.1 pk.2) acc) p = aget acc p := by
  induction ps generalizing acc with
  | nil => rfl
  | cons a ps ih =>
    simp only [foldl_cons]
    rw [ih _ (fun pk hpk => h pk (mem_cons_of_mem _ hpk))]
    exact aget_aset_ne _ _ _ _ (fun e => h a mem_cons_self e.symm)

theorem foldl_aset_sets (ps : List (String × Sg)) (acc : List (String × Sg)) (p : String) (k : Sg)
    (hm : (p, k) ∈ ps) (hnd : (ps.map Prod.fst).Nodup) :
    aget (ps.foldl (fun acc pk => aset acc pk.1 pk.2) acc) p = some k := by
  induction ps generalizing acc with
  | nil => cases hm
  | cons a ps ih =>
    simp only [map_cons, nodup_cons, mem_map, not_exists, not_and] at hnd
    simp only [foldl_cons]
    rcases mem_cons.mp hm with h | h
    · subst h
      rw [foldl_aset_frame ps _ p (fun pk hpk e => hnd.1 pk hpk e)]
      exact aget_aset_eq _ _ _
    · exact ih _ h hnd.2

/-- every path of the map resolves to its key after the commit -/
theorem commit_sets (S : PStore) (hn : S.noop = false) (ps : List (String × Sg)) (p : String) (k : Sg)
    (hm : (p, k) ∈ ps) (hnd : (ps.map Prod.fst).Nodup) : aget (S.sync ps).paths p = some k := by
  simp only [PStore.sync, hn]
  exact foldl_aset_sets ps S.paths p k hm hnd

/-- paths that the evaluation did not keep retain their previous content -/
theorem commit_frame (S : PStore) (ps : List (String × Sg)) (p : String) (h : ∀ pk ∈ ps, pk.1 ≠ p) :
    aget (S.sync ps).paths p = aget S.paths p := by
  unfold PStore.sync
  split
  · rfl
  · exact foldl_aset_frame ps S.paths p h

/-- committing never touches the blobs -/
theorem commit_blobs (S : PStore) (ps : List (String × Sg)) : (S.sync ps).blobs = S.blobs := by
  unfold PStore.sync; split <;> rfl

theorem evalStep_store_sync {m : Nat} {W : World} {S : PStore} {rq : Request} {fn : Fn} {env : Env} {fis : FIS}
    {paths : List (String × Sg)} (ha : analysisPhase m W S rq = .ok (fn, env, fis, paths)) (hs : Stage.eval ∈ rq.stages)
    (hpc : Stage.pathCommit ∈ rq.stages) {v : RVal} (hv : (evalStep m W S rq).value = .ok (some v)) :
    ∃ S0 : PStore, (evalStep m W S rq).store = S0.sync paths ∧ (S.noop = false → S0.noop = false) := by
  simp only [evalStep, ha, hs, not_true_eq_false, if_false, hpc, if_true] at hv ⊢
  cases hb : sgGet S.blobs fis.retSig with
  | some w => exact ⟨S, by simp, fun h => h⟩
  | none =>
    simp only [hb] at hv ⊢
    have hno := runFn_noop W paths W.fuel { store := S } fn env
    cases hr : runFn W paths W.fuel { store := S } fn env with
    | mk rv st =>
      rw [hr] at hno
      simp only [hr] at hv ⊢
      cases rv with
      | error e => simp at hv
      | ok w =>
        simp only at hv ⊢ hno
        cases hp : fis.storePath with
        | none => exact ⟨st.store, by simp, fun h => by rw [hno]; exact h⟩
        | some pth =>
          simp only [hp] at hv ⊢
          cases hk : aget paths pth with
          | none => simp [hk] at hv
          | some key => exact ⟨st.store.storeBlob key w, by simp, fun h => by rw [storeBlob_noop, hno]; exact h⟩

/-- **the value clause**: a committed path resolves to a blob that is the plain value of the call kept there -/
theorem committed_value (U : Universe) (m x : Nat) (W : World) (S : PStore) (rq : Request)
    (hW : U.world W) (hx : W.extVersion = x) (hrq : U.request rq) (hS : Sound U m x S) (hC : Closed U m S) (hn : S.noop = false)
    {fn : Fn} {env : Env} {fis : FIS} {paths : List (String × Sg)}
    (ha : analysisPhase m W S rq = .ok (fn, env, fis, paths)) (hs : Stage.eval ∈ rq.stages)
    (hpc : Stage.pathCommit ∈ rq.stages) {v : RVal} (hv : (evalStep m W S rq).value = .ok (some v))
    (p : String) (k : Sg) (hp : aget paths p = some k) :
    aget (evalStep m W S rq).store.paths p = some k ∧
    ∃ w, sgGet (evalStep m W S rq).store.blobs k = some w ∧
      ∀ (W' : World) (g : Fn) (ctx : ArgCtx) (env' : Env) (fuel : Nat) (refs : Refs) (stack : List String) (f : FIS) (r : Refs) (q : PSt),
        U.world W' → W'.extVersion = x → U.fns g → Chain U m W' g ctx env' →
        analyse m W' fuel refs stack g ctx = .ok (f, r) → f.retSig = k → (plainFn W' fuel q g env').1 = .ok w := by
  obtain ⟨_, _, _, _, P⟩ := analysisPhase_inv ha
  have hnd := allStorePaths_nodup fis [] paths P.hpaths (by simp)
  obtain ⟨S0, e0, n0⟩ := evalStep_store_sync ha hs hpc hv
  have hsome := requested_paths_stored U m W S rq hW hC hn ha hs hv p k hp
  have hsound := (memo_correct U m x W S rq hW hx hrq hS).1
  refine ⟨?_, ?_⟩
  · rw [e0]; exact commit_sets S0 (n0 hn) paths p k (aget_mem hp) hnd
  · cases hw : sgGet (evalStep m W S rq).store.blobs k with
    | none => simp [hw] at hsome
    | some w =>
      refine ⟨w, rfl, ?_⟩
      intro W' g ctx env' fuel refs stack f r q hW' hx' hg hch han hsig
      subst hsig
      exact served_right hsound hW' hx' hg hch han hw q

/-- the value clause after any history from an empty (real) store -/
theorem committed_value_history (U : Universe) (m x : Nat) (hist : List HStep) (hok : ∀ s ∈ hist, s.ok U x)
    (W : World) (rq : Request) (hW : U.world W) (hx : W.extVersion = x) (hrq : U.request rq)
    {fn : Fn} {env : Env} {fis : FIS} {paths : List (String × Sg)}
    (ha : analysisPhase m W (runHistory m {} hist) rq = .ok (fn, env, fis, paths)) (hs : Stage.eval ∈ rq.stages)
    (hpc : Stage.pathCommit ∈ rq.stages) {v : RVal} (hv : (evalStep m W (runHistory m {} hist) rq).value = .ok (some v))
    (p : String) (k : Sg) (hp : aget paths p = some k) :
    aget (evalStep m W (runHistory m {} hist) rq).store.paths p = some k ∧
    ∃ w, sgGet (evalStep m W (runHistory m {} hist) rq).store.blobs k = some w := by
  have h1 := sound_history U m x hist {} (sound_empty U m x false) hok
  have h2 := closed_history U m hist {} (closed_empty U m false) rfl (fun s hs => (hok s hs).1)
  obtain ⟨a, w, b, _⟩ := committed_value U m x W _ rq hW hx hrq h1 h2.1 h2.2 ha hs hpc hv p k hp
  exact ⟨a, w, b⟩

end Dds.C04
