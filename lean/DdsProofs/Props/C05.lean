import Generated.Facts
import DdsProofs.Hash
/-!
# C05 — value hashing is total, deterministic and collision-free on supported values

* totality: `ddsHash` is a total Lean function (termination is checked by the kernel through the
  structural recursion), and `coded` says its only failures are the two coded DDS errors;
* determinism: `ddsHash` is a function of the value and the option `hash.max_sequence_size` only;
* collision-freedom: `collide_iff` — two values get the same signature **iff** their `canonKF` agree.
  `canonKF` makes the documented identifications (list = tuple, bool = int, path/date = its text,
  `doc_*` below) **and** the structural ones the format really has (`full_false_*`): the full statement
  of the property (only the documented ones) is false on the code as it is — these are known findings.
-/
namespace Dds.C05
open Dds

/-- the only failures are coded DDS errors (never the model of `struct.error`), at every depth -/
theorem coded (m : Nat) (v : PyVal) : ddsHash m v ≠ .error .lowLevel :=
  ddsHash_coded m v

/-- exact characterisation of collisions, any nesting, any size -/
theorem collide_iff (m : Nat) (a b : PyVal) (ha hb : Sg)
    (ea : ddsHash m a = .ok ha) (eb : ddsHash m b = .ok hb) :
    ha = hb ↔ canonKF a = canonKF b := by
  rw [ddsHash_eq_hashC m a ha ea, ddsHash_eq_hashC m b hb eb]
  constructor
  · exact hashC_inj _ _ (canonKF_wf a) (canonKF_wf b)
  · intro h; rw [h]

/-- `_partial`: equal signatures ⇒ equal canonical forms (these are the only collisions) -/
theorem inj_partial (m : Nat) (a b : PyVal) (h : Sg)
    (ea : ddsHash m a = .ok h) (eb : ddsHash m b = .ok h) : canonKF a = canonKF b :=
  (collide_iff m a b h h ea eb).mp rfl

/-- scalars of one type never collide -/
theorem int_inj (m : Nat) (i j : Int) (hi : inInt32 i = true) (hj : inInt32 j = true)
    (h : ddsHash m (.int i) = ddsHash m (.int j)) : i = j :=
  ddsHash_int_inj m i j hi hj h
theorem bigint_inj (m : Nat) (i j : Int) (hi : inInt32 i = false) (hj : inInt32 j = false)
    (h : ddsHash m (.int i) = ddsHash m (.int j)) : i = j :=
  ddsHash_bigint_inj m i j hi hj h
theorem int_bigint_ne (m : Nat) (i j : Int) (hi : inInt32 i = true) (hj : inInt32 j = false) :
    ddsHash m (.int i) ≠ ddsHash m (.int j) :=
  ddsHash_int_bigint_ne m i j hi hj
theorem str_inj (m : Nat) (s t : String) (h : ddsHash m (.str s) = ddsHash m (.str t)) : s = t := by
  simp only [ddsHash, hStr, Except.ok.injEq, Sg.H.injEq] at h
  exact utf8_inj (litPart_inj h)
theorem float_inj (m : Nat) (x y : UInt64) (h : ddsHash m (.float x) = ddsHash m (.float y)) : x = y :=
  ddsHash_float_inj m x y h

/-- documented identifications -/
theorem doc_list_tuple (m : Nat) (xs : List PyVal) : ddsHash m (.list xs) = ddsHash m (.tuple xs) := by
  simp [ddsHash]
theorem doc_bool_int (m : Nat) (b : Bool) : ddsHash m (.bool b) = ddsHash m (.int (if b then 1 else 0)) := by
  simp [ddsHash]
theorem doc_path_text (m : Nat) (s : String) : ddsHash m (.ppath s) = ddsHash m (.str s) := by
  simp [ddsHash]
theorem doc_temporal_text (m : Nat) (s : String) : ddsHash m (.temporal s) = ddsHash m (.str s) := by
  simp [ddsHash]

/-- the full statement (only the documented identifications) is false: proved witnesses, each replayed
on the real code by the check (known findings C05-KF1..4) -/
theorem full_false_empty : ddsHash 10 (.str "") = ddsHash 10 (.list []) ∧
    ddsHash 10 (.list []) = ddsHash 10 (.dict []) := by decide +kernel
theorem full_false_none : ddsHash 10 .none = ddsHash 10 (.str "__DDS_NONE__") := by decide +kernel
theorem full_false_dict : ddsHash 10 (.dict [(.str "k", .int 1)]) =
    ddsHash 10 (.list [.list [.str "k", .int 1]]) := by decide +kernel
theorem full_false_int_str : ddsHash 10 (.int 1094861636) = ddsHash 10 (.str "ABCD") := by decide +kernel

/-- non-vacuity: values that do hash, and do differ -/
example : ∃ h, ddsHash 10 (.list [.int 1, .str "a"]) = .ok h := ⟨_, rfl⟩
example : ddsHash 10 (.list [.int 1]) ≠ ddsHash 10 (.list [.int 2]) := by decide +kernel

/-- the sentinel strings of `dds_hash` are re-read from the source on every run -/
theorem sentinels_table : Facts.hashSentinels = ["__DDS_INT__", noneSentinel] := by decide

end Dds.C05
