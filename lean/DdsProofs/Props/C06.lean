import DdsProofs.Conc
/-!
# C06 — a process killed at any instant never leaves a store that serves wrong data

Crash semantics of the property (kill -9: process state lost, completed file-system operations durable)
in the model of `DdsModel/Conc.lean`: a killed process is one that is never scheduled again; its temporary
files stay behind as garbage that nothing reads.

* `crash_safe`: run any processes under any schedule up to **any** point (every operation boundary, both
  halves of every write), kill **any** subset of them, start a new process with any requests, continue
  under any schedule: at the end — and at every moment in between — everything published on the disk is
  complete and correct, so whatever a later evaluation finds present is right and whatever it finds absent
  it recomputes; nothing has to be cleaned up for the new process to proceed (`recovery_not_stuck`);
* `paths_old_or_new`: a path committed before the crash resolves, at every moment, to the key it had or to
  a key that was being committed to it — and that key's blob is complete.
-/
namespace Dds.C06
open Dds List

theorem crash_safe (V : Truth) (s : Sys) (h : SysInv V s) (before : List Nat) (alive : Proc → Bool)
    (q : Proc) (hfresh : ∀ p ∈ (s.run V before).procs, p.id ≠ q.id) (hidx : q.idx = 0) (hpc : q.pc = 0)
    (hready : ∀ (j : Nat) l k, q.reqs[j]? = some (Req.sync l k) →
      (aget (s.run V before).disk.metas k).isSome ∨ ∃ (i : Nat) (k' : Key), i < j ∧ q.reqs[i]? = some (Req.store k') ∧ k' = k)
    (after : List Nat) :
    let crashed := s.run V before
    let recovered : Sys := ⟨crashed.disk, crashed.procs.filter alive ++ [q]⟩
    DiskInv V crashed.disk ∧ SysInv V (recovered.run V after) := by
  have h1 := inv_run V before s h
  have h2 := inv_kill V _ _ alive h1
  have h3 := inv_spawn V _ _ q h2 (fun p hp => hfresh p (mem_filter.mp hp).1) hidx hpc hready
  exact ⟨h1.1, inv_run V after _ h3⟩

theorem recovery_reads_right (V : Truth) (s : Sys) (h : SysInv V s) (sched : List Nat) (k : Key)
    (hk : (s.run V sched).disk.hasBlob k = true) :
    (s.run V sched).disk.fetch k = some (V.content k, V.metaOf k) :=
  reader_correct V _ (inv_run V sched s h).1 k hk

theorem paths_old_or_new (V : Truth) (s : Sys) (h : SysInv V s) (sched : List Nat) (l : Loc) (k : Key)
    (hl : (s.run V sched).disk.resolve l = some k) :
    (s.disk.resolve l = some k ∨ ∃ p ∈ s.procs, Req.sync l k ∈ p.reqs) ∧
    (s.run V sched).disk.fetch k = some (V.content k, V.metaOf k) :=
  ⟨resolve_old_or_requested V sched s h l k hl,
   reader_correct V _ (inv_run V sched s h).1 k (resolve_complete V _ (inv_run V sched s h).1 l k hl)⟩

/-- non-vacuity: a writer killed after the first half of the blob's content; the next process finds nothing
under the key (so it recomputes) and the old path still resolves to the old complete blob -/
example :
    let V : Truth := { content := fun k => if k = "old" then [9, 9] else [1, 2, 3, 4], metaOf := fun _ => "local.string" }
    let d0 : Disk := { blobs := [("old", [9, 9])], metas := [("old", "local.string")], links := [(["p"], "old")] }
    let w : Proc := { id := 0, reqs := [.store "new", .sync ["p"] "new"] }
    let s := (Sys.mk d0 [w]).run V [0, 0]
    s.disk.hasBlob "new" = false ∧ s.disk.resolve ["p"] = some "old" ∧
    s.disk.fetch "old" = some ([9, 9], "local.string") := by
  decide +kernel

end Dds.C06
