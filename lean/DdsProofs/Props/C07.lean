import DdsProofs.Conc
/-!
# C07 — processes sharing a local store never observe partial or foreign results

Model: `DdsModel/Conc.lean` — any number of processes, each a list of `store` / `sync` requests executed
one file-system operation at a time (torn writes: two halves), under **any** schedule.

* `interleave_safe`: from a state satisfying the invariant, after any schedule, everything published on the
  disk is complete and correct (`DiskInv`);
* `reads_complete`: hence any reader, at any moment, that finds a blob present gets the complete right
  content with the right metadata, and any path it resolves leads to such a blob;
* `no_spurious_failure`: in every reachable state the next operation of every process finds the temporary
  file / link it is about to publish (no `FileNotFoundError`; temporary names are private, directories are
  created with `exist_ok`, `os.replace` overwrites: no `FileExistsError`);
* `finished_serves`: when a process has run to completion every key it stored is readable;
* `init`: an empty store with any processes (distinct ids, each syncing only keys it stores first) satisfies
  the invariant.
-/
namespace Dds.C07
open Dds List

theorem interleave_safe (V : Truth) (s : Sys) (h : SysInv V s) (sched : List Nat) :
    DiskInv V (s.run V sched).disk := (inv_run V sched s h).1

theorem reads_complete (V : Truth) (s : Sys) (h : SysInv V s) (sched : List Nat) :
    (∀ k, (s.run V sched).disk.hasBlob k = true → (s.run V sched).disk.fetch k = some (V.content k, V.metaOf k)) ∧
    (∀ l k, (s.run V sched).disk.resolve l = some k → (s.run V sched).disk.hasBlob k = true) :=
  ⟨fun k hk => reader_correct V _ (interleave_safe V s h sched) k hk,
   fun l k hl => resolve_complete V _ (interleave_safe V s h sched) l k hl⟩

theorem no_spurious_failure (V : Truth) (s : Sys) (h : SysInv V s) (sched : List Nat) :
    ∀ p ∈ (s.run V sched).procs,
      (∀ k, p.reqs[p.idx]? = some (.store k) → p.pc = 3 → (tget (s.run V sched).disk.tmpFiles (p.id, p.idx)).isSome) ∧
      (∀ k, p.reqs[p.idx]? = some (.store k) → 6 ≤ p.pc → (tget (s.run V sched).disk.tmpFiles (p.id, p.idx)).isSome) ∧
      (∀ l k, p.reqs[p.idx]? = some (.sync l k) → 2 ≤ p.pc → (tget (s.run V sched).disk.tmpLinks (p.id, p.idx)).isSome) := by
  intro p hp
  have hpi := (inv_run V sched s h).2.1 p hp
  exact ⟨fun k hr hpc => by rw [hpi.tmp_full k hr hpc]; rfl, fun k hr hpc => hpi.tmp_meta k hr hpc,
    fun l k hr hpc => by rw [hpi.tmp_link l k hr hpc]; rfl⟩

theorem finished_serves (V : Truth) (s : Sys) (h : SysInv V s) (sched : List Nat) :
    ∀ p ∈ (s.run V sched).procs, p.idx = p.reqs.length → ∀ k, Req.store k ∈ p.reqs →
      (s.run V sched).disk.fetch k = some (V.content k, V.metaOf k) := by
  intro p hp hfin k hk
  have hinv := inv_run V sched s h
  have hpi := hinv.2.1 p hp
  rcases getElem_of_mem hk with ⟨j, hj, hjk⟩
  have hm := hpi.done_ok j k (by omega) (by rw [getElem?_eq_getElem hj, hjk])
  obtain ⟨m, hm'⟩ := Option.isSome_iff_exists.mp hm
  have hb := (hinv.1.meta_ok k m hm').2
  exact reader_correct V _ hinv.1 k (by simp [Disk.hasBlob, hm, hb])

theorem init (V : Truth) (ps : List Proc) (hids : ps.Pairwise (fun a b => a.id ≠ b.id))
    (hstart : ∀ p ∈ ps, p.idx = 0 ∧ p.pc = 0)
    (hready : ∀ p ∈ ps, ∀ (j : Nat) l k, p.reqs[j]? = some (Req.sync l k) →
      ∃ (i : Nat), i < j ∧ p.reqs[i]? = some (Req.store k)) :
    SysInv V ⟨{}, ps⟩ := by
  refine ⟨⟨fun _ _ h => by simp [aget] at h, fun _ _ h => by simp [aget] at h, fun _ _ h => by simp [lget] at h⟩, ?_, hids⟩
  intro p hp
  obtain ⟨h0, h1⟩ := hstart p hp
  exact {
    done_ok := fun j k hj _ => by omega
    sync_ready := fun j l k _ hr => by
      obtain ⟨i, hi, hs⟩ := hready p hp j l k hr
      exact Or.inr ⟨i, k, by omega, hi, hs, rfl⟩
    tmp_full := fun k _ hp3 => by omega
    blob_pub := fun k _ hp4 => by omega
    tmp_meta := fun k _ hp6 => by omega
    tmp_link := fun l k _ hp2 => by omega }

/-- non-vacuity: two processes storing the same key and committing the same path, one schedule -/
example :
    let V : Truth := { content := fun _ => [1, 2, 3, 4], metaOf := fun _ => "local.string" }
    let p0 : Proc := { id := 0, reqs := [.store "k", .sync ["p"] "k"] }
    let p1 : Proc := { id := 1, reqs := [.store "k", .sync ["p"] "k"] }
    let s := (Sys.mk {} [p0, p1]).run V [0, 1, 1, 0, 0, 1, 0, 1, 1, 1, 1, 0, 0, 0, 0, 0, 1, 1, 1, 0, 0]
    s.disk.fetch "k" = some ([1, 2, 3, 4], "local.string") ∧ s.disk.resolve ["p"] = some "k" := by
  decide +kernel

end Dds.C07
