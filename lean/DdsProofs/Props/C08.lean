import DdsProofs.LocalStore
/-!
# C08 — stores round-trip blobs and paths; distinct paths never alias or escape

* `local_refines`: for **every** operation sequence (store / has / fetch / sync / fetch_paths, any length,
  any interleaving of keys and paths) over a universe of DDS paths that have a location and pairwise
  different segment lists, `LocalFileStore` answers exactly like the dictionary specification
  (`Dict`, which is `MemoryStore`); re-opening the store is the identity on the modelled disk state.
* `cached_local_refines`: the same for the store wrapped with the object cache (composition with C12).
* `loc_injective`, `loc_contained`: two paths share a location only if they have the same sequence of
  non-empty segments; a location is a non-empty list of components none of which is `.` or `..`, so it
  lies strictly below the data directory.
-/
namespace Dds.C08
open Dds List

theorem local_run (P : DPath → Prop) (hP : PathUniverse P) :
    ∀ (ops : List StoreOp) (s : LocalSt) (d : Dict), (∀ op ∈ ops, opOk P op) → LocalRel P s d →
    (runOps LocalSt.step s ops).2 = (runOps Dict.step d ops).2 ∧
    LocalRel P (runOps LocalSt.step s ops).1 (runOps Dict.step d ops).1
  | [], _, _, _, h => ⟨rfl, h⟩
  | op :: ops, s, d, hok, h => by
    obtain ⟨hi, ho⟩ := local_sim P hP s d op (hok op mem_cons_self) h
    obtain ⟨r1, r2⟩ := local_run P hP ops _ _ (fun o ho' => hok o (mem_cons_of_mem _ ho')) hi
    simp only [runOps]
    exact ⟨by rw [ho, r1], r2⟩

theorem empty_related (P : DPath → Prop) : LocalRel P {} {} :=
  ⟨fun _ => rfl, fun _ => rfl, fun _ _ _ _ => rfl⟩

/-- `LocalFileStore` on a fresh directory answers like the dictionary, for every operation sequence -/
theorem local_refines (P : DPath → Prop) (hP : PathUniverse P) (ops : List StoreOp)
    (hops : ∀ op ∈ ops, opOk P op) :
    (runOps LocalSt.step {} ops).2 = (runOps Dict.step {} ops).2 :=
  (local_run P hP ops {} {} hops (empty_related P)).1

/-- … and so does the cache-wrapped local store, for every capacity -/
theorem cached_local_refines (P : DPath → Prop) (hP : PathUniverse P) (cap : Nat) (ops : List StoreOp)
    (hops : ∀ op ∈ ops, opOk P op) :
    (runOps (Lru.step cap LocalSt.step) { cache := [], inner := {} } ops).2 = (runOps Dict.step {} ops).2 :=
  (lru_run (LocalRel P) (opOk P) LocalSt.step (local_sim P hP) (fun _ _ => trivial) cap ops
    { cache := [], inner := {} } {} hops ⟨empty_related P, by intro kv h; cases h⟩).1

/-- two paths share a location only if they have the same sequence of non-empty segments -/
theorem loc_injective (p q : DPath) (l : Loc) (hp : localLoc p = .ok l) (hq : localLoc q = .ok l) :
    pathSegs p = pathSegs q := by
  unfold localLoc at hp hq
  simp only at hp hq
  split at hp <;> split at hq <;> simp_all

/-- a location is made of the path's own segments: non-empty, without `.` / `..` components -/
theorem loc_contained (p : DPath) (l : Loc) (hp : localLoc p = .ok l) :
    l = pathSegs p ∧ l ≠ [] ∧ ∀ s ∈ l, s ≠ "." ∧ s ≠ ".." ∧ s ≠ "" := by
  unfold localLoc at hp
  simp only at hp
  split at hp
  · cases hp
  · rename_i h
    simp only [Except.ok.injEq] at hp
    subst hp
    simp only [Bool.or_eq_true, List.isEmpty_iff, any_eq_true, decide_eq_true_eq, not_or, not_exists, not_and] at h
    refine ⟨rfl, h.1, ?_⟩
    intro s hs
    have h2 := h.2 s hs
    refine ⟨h2.1, h2.2, ?_⟩
    intro e
    subst e
    simp [pathSegs] at hs

/-- any set of located paths with pairwise different segment lists is an admissible universe -/
theorem universe_of_distinct_segments (P : DPath → Prop)
    (hdef : ∀ p, P p → ∃ l, localLoc p = .ok l)
    (hseg : ∀ p q, P p → P q → pathSegs p = pathSegs q → p = q) : PathUniverse P :=
  ⟨hdef, fun p q l hp hq h1 h2 => hseg p q hp hq (loc_injective p q l h1 h2)⟩

/-- non-vacuity: the concatenation-ambiguous names keep different locations; `..` is refused -/
example : (localLoc "/a/b/c").toOption = some ["a", "b", "c"] ∧ (localLoc "/ab/c").toOption = some ["ab", "c"] ∧
    (localLoc "/../x").toOption = none ∧ (localLoc "/").toOption = none := by decide +kernel

end Dds.C08
