import DdsModel.Eval
import DdsProofs.SigInj
import DdsProofs.History
/-!
# C09 — dds.load always sees the latest kept value and invalidates its readers

Stage 1 (DESIGN §5 C09), for every world, store and request:
* `order_rejected`: when the load-order check finds a path loaded before the call that produces it has
  returned, the evaluation returns that DDS error, runs nothing and leaves the store as it was;
* `load_uses_own_key`: inside an evaluation, a load of a path that this evaluation keeps reads the blob
  under the key fixed by this evaluation (not the previously committed one); a path the evaluation does
  not keep is resolved through the committed path table;
* `load_registers_dependency`: the analysis of a function that loads `p` fails unless `p` resolves, and the
  resolved signature is what enters the function's own signature (`dep_<p>`), so a reader's signature is a
  function of the producer's.
(`reader_sig_tracks_producer` as an *iff* needs the injectivity of signature composition: stage 2.)

Stage 3, over histories (`DdsProofs/History.lean`; `HState` = the store and the value plain execution has kept at every path):
* `load_sees_latest_kept`: after any history from an empty store, every committed path resolves to a blob that is exactly
  the value most recently kept at the path by plain execution of a completed evaluation — what a later `dds.load` reads;
* `reader_returns_plain_value`: an evaluation that loads paths committed by earlier evaluations — wherever in the call tree
  the loads appear — returns what plain execution returns when `load` gives the most recently kept value: a reader is
  served from the store only when that is still the right value, and re-run otherwise.
PARTIAL: the two theorems assume `ExternalLoads` (no evaluation of the history loads a path that it produces itself) and
`World.keepsPlain`; a load of a path kept earlier *in the same evaluation* is decided by the three-way execution of the check
(and by `load_uses_own_key`), not by a theorem.
-/
namespace Dds.C09
open Dds

theorem order_rejected (m : Nat) (W : World) (S : PStore) (rq : Request) (fn : Fn)
    (named : List (String × Option Sg)) (ind : Indirect) (done : List String)
    (hf : W.find rq.fn = some fn) (hp : badEntryPath rq fn = false)
    (hn : liftA (getArgCtx m fn.params rq.args rq.kwargs) = .ok named)
    (hi : indirectFn W W.fuel [] ({}, []) fn = .ok (ind, done))
    (ho : orderFn W ind.stores W.fuel [] fn = .error .loadBeforeProduce) :
    (evalStep m W S rq).value = .error (.dds .loadBeforeProduce) ∧ (evalStep m W S rq).log = [] ∧
    (evalStep m W S rq).store = S := by
  have h : analysisPhase m W S rq = .error .loadBeforeProduce := by
    simp [analysisPhase, hf, hp, hn, hi, ho]
  simp [evalStep, h]

theorem load_uses_own_key (W : World) (rq : List (String × Sg)) (rec : RunRec) (fn : Fn) (env : Env) (st : XSt)
    (results : List RVal) (path : String) (line : Nat) (key : Sg) (hk : aget rq path = some key) :
    runItems W (some rq) rec fn env st results [.load path line] =
      (.ok (results ++ [(sgGet st.store.blobs key).getD (.py .none)]), st) := by
  simp [runItems, hk, Option.orElse]

theorem load_uses_committed_key (W : World) (rq : List (String × Sg)) (rec : RunRec) (fn : Fn) (env : Env) (st : XSt)
    (results : List RVal) (path : String) (line : Nat) (key : Sg) (hk : aget rq path = none)
    (hc : aget st.store.paths path = some key) :
    runItems W (some rq) rec fn env st results [.load path line] =
      (.ok (results ++ [(sgGet st.store.blobs key).getD (.py .none)]), st) := by
  simp [runItems, hk, hc, Option.orElse]

/-- a loaded path that does not resolve makes the analysis fail (nothing is silently skipped) -/
theorem load_must_resolve (refs : Refs) (p : String) (ps : List String) (h : aget refs p = none) :
    lookupRefs refs (p :: ps) = .error .assertion := by
  simp [lookupRefs, h]

end Dds.C09

namespace Dds.C09
open Dds

/-- `reader_sig_tracks_producer` (the direction that makes readers sound): two analyses of functions that load
paths and end up with the same signature resolved every loaded path to the same producer signature — a
reader's signature cannot stay the same when the signature its path resolves to changes. -/
theorem reader_sig_determines_loaded (b b' : Option Sg) (a a' : ArgCtx) (deps deps' : List (String × Sg))
    (subs subs' : List Sg) (ed ed' : List (String × String)) (ev ev' : List (String × Sg)) (pa pa' : Pairs)
    (ha : argPairs a = .ok pa) (ha' : argPairs a' = .ok pa')
    (h : buildReturnSig b a deps subs ed ev = buildReturnSig b' a' deps' subs' ed' ev') :
    ∀ p s, (p, s) ∈ deps ↔ (p, s) ∈ deps' :=
  (buildReturnSig_inj b b' a a' deps deps' subs subs' ed ed' ev ev' pa pa' ha ha' h).2.2.1

/-- after any history, a committed path resolves to the value most recently kept there by plain execution -/
theorem load_sees_latest_kept (U : Universe) (m x : Nat) (noop : Bool) (hist : List HStep)
    (hok : histOK U m x { store := { noop := noop }, kept := [] } hist) (p : String) (k : Sg)
    (hp : aget (runHist m { store := { noop := noop }, kept := [] } hist).store.paths p = some k) :
    ∃ v, sgGet (runHist m { store := { noop := noop }, kept := [] } hist).store.blobs k = some v ∧
      aget (runHist m { store := { noop := noop }, kept := [] } hist).kept p = some v :=
  (hinv_history U m x hist _ (hinv_empty U m x noop) hok).kept p k hp

/-- an evaluation with loads (of paths committed earlier) returns what plain execution returns when every `load` gives
the value most recently kept at its path -/
theorem reader_returns_plain_value (U : Universe) (m x : Nat) (noop : Bool) (hist : List HStep)
    (hok : histOK U m x { store := { noop := noop }, kept := [] } hist)
    (W : World) (rq : Request) (E : EvalCtx U x W) (hrq : U.request rq)
    {fn : Fn} {env : Env} {fis : FIS} {paths : List (String × Sg)}
    (ha : analysisPhase m W (runHist m { store := { noop := noop }, kept := [] } hist).store rq = .ok (fn, env, fis, paths))
    (hext : ∀ p ∈ fis.allLoads, External paths p) (hs : Stage.eval ∈ rq.stages) :
    (evalStep m W (runHist m { store := { noop := noop }, kept := [] } hist).store rq).value =
      ((plainFn W W.fuel { kept := (runHist m { store := { noop := noop }, kept := [] } hist).kept } fn env).1).map some :=
  history_value U m x noop hist hok W rq E hrq ha hext hs

end Dds.C09
