import DdsProofs.EvalLemmas
import DdsProofs.Memo
import DdsProofs.History
/-!
# C10 — a failing user function is never cached and leaves dds and the store clean

For **every** world, store state and request:
* `failure_commits_nothing`: whenever an evaluation ends with an error — a DDS error or a user exception
  raised at any depth — the path table of the store is exactly what it was;
* `failure_propagates`: the error that comes out is the one the user function raised (same kind, same token);
* `failing_call_not_stored`: a kept call whose function fails stores nothing under its key, and the failure
  is passed on unchanged to the functions waiting for it;
* `failure_is_plain` (load-free fragment, over a `Universe`, after any history): the exception that comes out of an
  evaluation is exactly the exception plain execution of the current code raises — a failure is never replaced by a
  stored result and a stored result never by a failure.
-/
namespace Dds.C10
open Dds

theorem failure_commits_nothing (m : Nat) (W : World) (S : PStore) (rq : Request) (e : XErr)
    (h : (evalStep m W S rq).value = .error e) : (evalStep m W S rq).store.paths = S.paths := by
  unfold evalStep at h ⊢
  cases ha : analysisPhase m W S rq with
  | error e' => rfl
  | ok r =>
    obtain ⟨fn, env, fis, paths⟩ := r
    simp only [ha] at h ⊢
    by_cases hs : Stage.eval ∈ rq.stages
    · simp only [hs, not_true_eq_false, if_false] at h ⊢
      cases hb : sgGet S.blobs fis.retSig with
      | some v => simp [hb] at h
      | none =>
        simp only [hb] at h ⊢
        have hp := runFn_paths W paths W.fuel { store := S } fn env
        cases hr : runFn W paths W.fuel { store := S } fn env with
        | mk r st =>
          rw [hr] at hp
          simp only [hr] at h ⊢
          cases r with
          | error e' => exact hp
          | ok v =>
            simp only [] at h ⊢
            cases hsp : fis.storePath with
            | none => simp [hsp] at h
            | some p =>
              simp only [hsp] at h ⊢
              cases hk : aget paths p with
              | none => exact hp
              | some key => simp [hk] at h
    · simp [hs] at h

theorem failure_propagates (m : Nat) (W : World) (S : PStore) (rq : Request)
    (fn : Fn) (env : Env) (fis : FIS) (paths : List (String × Sg)) (e : XErr) (st : XSt)
    (ha : analysisPhase m W S rq = .ok (fn, env, fis, paths)) (hs : Stage.eval ∈ rq.stages)
    (hb : sgGet S.blobs fis.retSig = none)
    (hr : runFn W paths W.fuel { store := S } fn env = (.error e, st)) :
    (evalStep m W S rq).value = .error e ∧ (evalStep m W S rq).store = st.store := by
  simp [evalStep, ha, hs, hb, hr]

theorem failing_call_not_stored (requested : List (String × Sg)) (rec : RunRec) (st st' : XSt) (path : String)
    (g : Fn) (env : Env) (key : Sg) (e : XErr) (hk : aget requested path = some key)
    (hn : sgGet st.store.blobs key = none) (hr : rec st g env = (.error e, st')) :
    keepExec requested rec st path g env = (.error e, st') := by
  simp [keepExec, hk, hn, hr]

/-- after any history, an evaluation fails **iff** plain execution of the current code (from the values kept so far)
fails, with the same exception -/
theorem failure_is_plain (U : Universe) (m x : Nat) (noop : Bool) (hist : List HStep)
    (hok : histOK U m x { store := { noop := noop }, kept := [] } hist)
    (W : World) (rq : Request) (E : EvalCtx U x W) (hrq : U.request rq)
    {fn : Fn} {env : Env} {fis : FIS} {paths : List (String × Sg)}
    (ha : analysisPhase m W (runHist m { store := { noop := noop }, kept := [] } hist).store rq = .ok (fn, env, fis, paths))
    (hext : ∀ p ∈ fis.allLoads, External paths p) (hs : Stage.eval ∈ rq.stages) (e : XErr) :
    (evalStep m W (runHist m { store := { noop := noop }, kept := [] } hist).store rq).value = .error e ↔
      (plainFn W W.fuel { kept := (runHist m { store := { noop := noop }, kept := [] } hist).kept } fn env).1 = .error e := by
  rw [history_value U m x noop hist hok W rq E hrq ha hext hs]
  cases (plainFn W W.fuel { kept := (runHist m { store := { noop := noop }, kept := [] } hist).kept } fn env).1 with
  | ok v => simp [Except.map]
  | error e' => simp [Except.map]

end Dds.C10
