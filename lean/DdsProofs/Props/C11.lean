import DdsProofs.Paths
import DdsProofs.Acyclic
/-!
# C11 — ill-formed evaluations are rejected … whatever the order (the overlap part)

`overlap_iff`: for **every** list of well-formed kept paths, in **every** order,
`non_terminal_leaves` reports something **iff** some path of the list is a strict prefix
(segment-wise) of another one. `order_irrelevant` makes the order-independence explicit.
(The root path `/` — zero segments — as a kept path is outside this statement: see DESIGN §6.)

Cycles and nested evaluations (whole model, any depth, any edge kind — call, call with arguments, reference, keep,
data function):
* `cycle_rejected`       — if some call path from the evaluated function repeats a function, the analysis fails;
* `nested_eval_rejected` — if the evaluated function, or any function on a call path from it, contains a `dds.eval`,
                           the analysis fails;
* `rejection_no_effect`  — a rejected evaluation runs no user code and leaves the store exactly as it was.
-/
namespace Dds.C11
open Dds List

theorem overlap_iff (ps : List Segs) :
    nonTerminalLeaves ps ≠ [] ↔ ∃ p ∈ ps, ∃ q ∈ ps, p ≠ [] ∧ p <+: q ∧ p ≠ q := by
  unfold nonTerminalLeaves
  have hlen : ∀ p ∈ ps, p.length < maxLen ps + 1 := fun p hp => Nat.lt_succ_of_le (mem_le_maxLen hp)
  have hrec := ntl_rec_iff (maxLen ps) ps none (ntl_some_iff (maxLen ps)) hlen
  rw [ntl_succ]
  simp only [nil_append]
  rw [hrec]
  constructor
  · rintro ⟨k, p', hp, q', hq, hpre, hne⟩
    exact ⟨k :: p', mem_tailsOf.mp hp, k :: q', mem_tailsOf.mp hq, by simp,
      by simpa [cons_prefix_cons] using hpre, fun h => hne (by simpa using h)⟩
  · rintro ⟨p, hp, q, hq, hpne, hpre, hne⟩
    cases p with
    | nil => exact absurd rfl hpne
    | cons k p' =>
      cases q with
      | nil => simp at hpre
      | cons k' q' =>
        rw [cons_prefix_cons] at hpre
        obtain ⟨hk, hpre⟩ := hpre
        subst hk
        exact ⟨k, p', mem_tailsOf.mpr hp, q', mem_tailsOf.mpr hq, hpre, fun h => hne (by rw [h])⟩

/-- **the verdict does not depend on how the paths were spelled**: a path is created in its one normalised spelling, which has the
segments of the path whatever repeated (`//a`) or trailing (`/a/`) separators it was written with - the prefix check, which compares
segments, sees `//a` next to `/a/b` as `/a` next to `/a/b` (before the `fix:` commit 82e4b93 it compared the empty first piece of `//a`) -/
theorem spelling_irrelevant (p : String) : pathSegs (normPath p) = pathSegs p ∧ normPath (normPath p) = normPath p :=
  ⟨pathSegs_normPath p, normPath_idem p⟩

example : normPath "//a" = "/a" ∧ normPath "/a//b/" = "/a/b" ∧ normPath "/" = "/" ∧ pathSegs "//a" = ["a"] ∧
    nonTerminalLeaves [pathSegs (normPath "//a"), pathSegs (normPath "/a/b")] ≠ [] := by decide

/-- the verdict does not depend on the order in which the paths were met -/
theorem order_irrelevant (ps qs : List Segs) (h : ps.Perm qs) :
    nonTerminalLeaves ps ≠ [] ↔ nonTerminalLeaves qs ≠ [] := by
  rw [overlap_iff, overlap_iff]
  constructor
  · rintro ⟨p, hp, q, hq, r⟩; exact ⟨p, h.subset hp, q, h.subset hq, r⟩
  · rintro ⟨p, hp, q, hq, r⟩; exact ⟨p, h.symm.subset hp, q, h.symm.subset hq, r⟩

/-- non-vacuity, and the witness on which the code as originally written failed (`/f, /x, /f/g`) -/
example : nonTerminalLeaves [["f"], ["x"], ["f", "g"]] = [["f"]] := by decide +kernel
example : nonTerminalLeaves [["f"], ["x"], ["g", "f"]] = [] := by decide +kernel

/-- a call cycle reachable from the evaluated function (of any length, through any kind of edge) is rejected -/
theorem cycle_rejected {m : Nat} {W : World} {fn : Fn} {p : List String} (hp : CallPath W fn p) (hcyc : ¬ p.Nodup)
    (fuel : Nat) (refs : Refs) (ctx : ArgCtx) (r : FIS × Refs) : analyse m W fuel refs [] fn ctx ≠ .ok r :=
  fun h => hcyc ((accepted_paths fuel h).2 p hp).1

/-- a `dds.eval` inside the evaluated function or inside anything it reaches is rejected -/
theorem nested_eval_rejected {m : Nat} {W : World} {fn : Fn} {p : List String} (hp : CallPath W fn p)
    (hev : (∃ it ∈ fn.items, it.isEval) ∨ ∃ n ∈ p, ∃ g, W.find n = some g ∧ ∃ it ∈ g.items, it.isEval)
    (fuel : Nat) (refs : Refs) (ctx : ArgCtx) (r : FIS × Refs) : analyse m W fuel refs [] fn ctx ≠ .ok r := by
  intro h
  obtain ⟨k0, k⟩ := accepted_paths fuel h
  rcases hev with ⟨it, hit, he⟩ | ⟨n, hn, g, hg, it, hit, he⟩
  · exact k0 it hit he
  · exact (k p hp).2.2 n hn g hg it hit he

/-- a rejected evaluation executes nothing and leaves the store as it was -/
theorem rejection_no_effect (m : Nat) (W : World) (S : PStore) (rq : Request) (e : DdsErr)
    (h : analysisPhase m W S rq = .error e) :
    (evalStep m W S rq).log = [] ∧ (evalStep m W S rq).store = S ∧ (evalStep m W S rq).value = .error (.dds e) := by
  simp [evalStep, h]

/-- non-vacuity: a cycle of length two through a keep and a plain call, and its rejection computed by the model -/
def cycA : Fn where
  name := "fa"
  lines := ["def fa():", "    r0 = dds.keep('/p', fb)", ""]
  tag := "fa#0"
  params := []
  storePath := none
  vars := []
  exts := []
  items := [Item.keep "/p" "fb" [] [] [] [] 1]
  fails := none
  usesExt := false
def cycB : Fn where
  name := "fb"
  lines := ["def fb():", "    r0 = fa()", ""]
  tag := "fb#0"
  params := []
  storePath := none
  vars := []
  exts := []
  items := [Item.call "fa" 1]
  fails := none
  usesExt := false
def cycW : World := { funs := [cycA, cycB], extVersion := 0 }

example : CallPath cycW cycA ["fb", "fa", "fb"] :=
  .cons cycA (Item.keep "/p" "fb" [] [] [] [] 1) "fb" cycB _ (by simp [cycA]) rfl (by rfl)
    (.cons cycB (Item.call "fa" 1) "fa" cycA _ (by simp [cycB]) rfl (by rfl)
      (.cons cycA (Item.keep "/p" "fb" [] [] [] [] 1) "fb" cycB _ (by simp [cycA]) rfl (by rfl) (.nil _)))

def errIs (o : Outcome) (e : DdsErr) : Bool :=
  match o.value with
  | .error (.dds e') => e' == e
  | _ => false

example : errIs (evalStep 100 cycW {} { kind := .eval, fn := "fa" }) .circularCall = true := by decide +kernel

end Dds.C11
