import DdsProofs.Paths
/-!
# C11 — ill-formed evaluations are rejected … whatever the order (the overlap part)

`overlap_iff`: for **every** list of well-formed kept paths, in **every** order,
`non_terminal_leaves` reports something **iff** some path of the list is a strict prefix
(segment-wise) of another one. `order_irrelevant` makes the order-independence explicit.
(The root path `/` — zero segments — as a kept path is outside this statement: see DESIGN §6.)
-/
namespace Dds.C11
open Dds List

theorem overlap_iff (ps : List Segs) :
    nonTerminalLeaves ps ≠ [] ↔ ∃ p ∈ ps, ∃ q ∈ ps, p ≠ [] ∧ p <+: q ∧ p ≠ q := by
  unfold nonTerminalLeaves
  have hlen : ∀ p ∈ ps, p.length < maxLen ps + 1 := fun p hp => Nat.lt_succ_of_le (mem_le_maxLen hp)
  have hrec := ntl_rec_iff (maxLen ps) ps none (ntl_some_iff (maxLen ps)) hlen
  rw [ntl_succ]
  simp only [nil_append]
  rw [hrec]
  constructor
  · rintro ⟨k, p', hp, q', hq, hpre, hne⟩
    exact ⟨k :: p', mem_tailsOf.mp hp, k :: q', mem_tailsOf.mp hq, by simp,
      by simpa [cons_prefix_cons] using hpre, fun h => hne (by simpa using h)⟩
  · rintro ⟨p, hp, q, hq, hpne, hpre, hne⟩
    cases p with
    | nil => exact absurd rfl hpne
    | cons k p' =>
      cases q with
      | nil => simp at hpre
      | cons k' q' =>
        rw [cons_prefix_cons] at hpre
        obtain ⟨hk, hpre⟩ := hpre
        subst hk
        exact ⟨k, p', mem_tailsOf.mpr hp, q', mem_tailsOf.mpr hq, hpre, fun h => hne (by rw [h])⟩

/-- the verdict does not depend on the order in which the paths were met -/
theorem order_irrelevant (ps qs : List Segs) (h : ps.Perm qs) :
    nonTerminalLeaves ps ≠ [] ↔ nonTerminalLeaves qs ≠ [] := by
  rw [overlap_iff, overlap_iff]
  constructor
  · rintro ⟨p, hp, q, hq, r⟩; exact ⟨p, h.subset hp, q, h.subset hq, r⟩
  · rintro ⟨p, hp, q, hq, r⟩; exact ⟨p, h.symm.subset hp, q, h.symm.subset hq, r⟩

/-- non-vacuity, and the witness on which the code as originally written failed (`/f, /x, /f/g`) -/
example : nonTerminalLeaves [["f"], ["x"], ["f", "g"]] = [["f"]] := by decide +kernel
example : nonTerminalLeaves [["f"], ["x"], ["g", "f"]] = [] := by decide +kernel

end Dds.C11
