import DdsProofs.Lru
/-!
# C12 — the in-memory object cache is invisible and bounded

* `transparent`: for **every** wrapped store that itself behaves like the dictionary specification
  (`Refines`), **every** capacity and **every** operation sequence — absent keys, `None`-valued blobs and
  re-stored keys included — the wrapped store's answers are exactly the dictionary's;
* `transparent_memory`: the instance for `MemoryStore` (which *is* the dictionary);
* `bounded`: the cache never holds more than `cap` entries, in every reachable state;
* `decode_*`: how `set_store(cache_objects=…)` chooses the capacity.
-/
namespace Dds.C12
open Dds

theorem transparent {σ : Type} (R : σ → Dict → Prop) (ok : StoreOp → Prop) (istep : σ → StoreOp → σ × Out)
    (hsim : Sim R ok istep) (hokhas : ∀ k, ok (.fetch k) → ok (.has k)) (cap : Nat) (i₀ : σ) (d₀ : Dict) (h₀ : R i₀ d₀)
    (ops : List StoreOp) (hops : ∀ op ∈ ops, ok op) :
    (runOps (Lru.step cap istep) { cache := [], inner := i₀ } ops).2 = (runOps Dict.step d₀ ops).2 :=
  (lru_run R ok istep hsim hokhas cap ops { cache := [], inner := i₀ } d₀ hops ⟨h₀, by intro kv h; cases h⟩).1

theorem transparent_memory (cap : Nat) (d₀ : Dict) (ops : List StoreOp) :
    (runOps (Lru.step cap Dict.step) { cache := [], inner := d₀ } ops).2 = (runOps Dict.step d₀ ops).2 :=
  transparent (fun s d => s = d) (fun _ => True) Dict.step
    (fun s d op _ h => by subst h; exact ⟨rfl, rfl⟩) (fun _ _ => trivial) cap d₀ d₀ rfl ops (fun _ _ => trivial)

/-- the wrapper is itself a store that simulates the dictionary: wrappers compose with store refinements -/
theorem wrapper_simulates {σ : Type} (R : σ → Dict → Prop) (ok : StoreOp → Prop) (istep : σ → StoreOp → σ × Out)
    (hsim : Sim R ok istep) (hokhas : ∀ k, ok (.fetch k) → ok (.has k)) (cap : Nat) :
    Sim (LruRel R) ok (Lru.step cap istep) :=
  fun s d op hop hrel => lru_step R ok istep hsim hokhas cap s d op hop hrel

theorem bounded {σ : Type} (istep : σ → StoreOp → σ × Out) (cap : Nat) :
    ∀ (ops : List StoreOp) (s : Lru σ), s.cache.length ≤ cap →
      (runOps (Lru.step cap istep) s ops).1.cache.length ≤ cap
  | [], _, h => h
  | op :: ops, s, h => by
    simp only [runOps]
    exact bounded istep cap ops _ (lru_step_bounded istep cap s op h)

theorem decode_none : decodeCacheObjects .none = none := rfl
theorem decode_false : decodeCacheObjects (.bool false) = none := rfl
theorem decode_true : decodeCacheObjects (.bool true) = some 10 := rfl
theorem decode_zero : decodeCacheObjects (.int 0) = none := rfl
theorem decode_pos (n : Nat) (h : 0 < n) : decodeCacheObjects (.int n) = some n := by
  simp only [decodeCacheObjects]
  have h1 : ¬ ((n : Int) < 0) := by omega
  have h2 : (n : Int) > 0 := by omega
  simp [h1, h2]
  omega
theorem decode_neg (i : Int) (h : i < 0) : decodeCacheObjects (.int i) = some unboundedCacheSize := by
  simp [decodeCacheObjects, h]

/-- non-vacuity: capacity 1, two keys, an absent key and a `None` blob — the sequence on which the code
as originally written answered differently from the bare store -/
example :
    let ops := [StoreOp.fetch "absent", .has "absent", .store "absent" (some 1), .fetch "absent",
                .store "n" none, .fetch "n", .has "n", .fetch "absent", .store "absent" (some 2), .fetch "absent"]
    (runOps (Lru.step 1 Dict.step) { cache := [], inner := {} } ops).2 = (runOps Dict.step {} ops).2 ∧
    (runOps Dict.step {} ops).2 = [.val none, .bool false, .unit, .val (some 1), .unit, .val none, .bool true,
                                   .val (some 1), .unit, .val (some 2)] := by
  decide +kernel

end Dds.C12
