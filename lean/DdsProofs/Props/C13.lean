import DdsProofs.Args
/-!
# C13 — a kept call's signature depends on the argument binding, not on its spelling

For functions whose parameters are all plain (positional-or-keyword: the supported subset),
for **every** parameter list, spelling and value:

* `spelling_invariant` — two spellings with the same binding (`bind`) get the same argument context,
  on the direct route (`get_arg_ctx`);
* `source_eq_direct` — a call seen in source whose arguments are all literals gets exactly the argument
  context of the direct call with those values (`get_arg_ctx_ast` vs `get_arg_ctx`);
* `binding_injective` — equal argument contexts ⇒ equal bindings up to `canonKF` (C05): different
  bindings get different argument hashes;
* `sig_injective` — and the argument hashes are recoverable from the signature
  (`_build_return_sig`): equal signatures of one function ⇒ equal argument contexts.
-/
namespace Dds.C13
open Dds List

theorem spelling_invariant (m : Nat) (ps : List Param) (hp : plainParams ps = true)
    (a₁ a₂ : List PyVal) (k₁ k₂ : List (String × PyVal))
    (hb : bind ps a₁ k₁ = bind ps a₂ k₂) :
    getArgCtx m ps a₁ k₁ = getArgCtx m ps a₂ k₂ := by
  rw [getArgCtx_eq m ps a₁ k₁ hp, getArgCtx_eq m ps a₂ k₂ hp, hb]

theorem source_eq_direct (m : Nat) (ps : List Param) (hp : plainParams ps = true)
    (args : List PyVal) (kw : List (String × PyVal)) (c : List (String × Option Sg))
    (h : getArgCtx m ps args kw = .ok c) :
    getArgCtxAst m ps (constArgs args) (constKw kw) = .ok c :=
  getArgCtxAstFrom_const m args kw ps 0 c hp h

theorem binding_injective (m : Nat) (ps : List Param) (hp : plainParams ps = true)
    (a₁ a₂ : List PyVal) (k₁ k₂ : List (String × PyVal)) (c : List (String × Option Sg))
    (h₁ : getArgCtx m ps a₁ k₁ = .ok c) (h₂ : getArgCtx m ps a₂ k₂ = .ok c) :
    canonBinding (bind ps a₁ k₁) = canonBinding (bind ps a₂ k₂) := by
  rw [getArgCtx_eq m ps _ _ hp] at h₁ h₂
  exact hashBinding_inj m _ _ c h₁ h₂

/-- the argument hashes can be read back from the signature of a function: two calls of one
function (same body, dependencies, sub-calls, environment) with fully known arguments and equal
signatures have equal argument hashes, parameter by parameter. -/
theorem sig_injective (body : Option Sg) (deps : List (String × Sg)) (subs : List Sg)
    (ed : List (String × String)) (ev : List (String × Sg))
    (c₁ c₂ : List (String × Sg)) (i₁ i₂ : Option Sg)
    (hnames : c₁.map Prod.fst = c₂.map Prod.fst) (hnd : (c₁.map Prod.fst).Nodup)
    (h : buildReturnSig body ⟨c₁.map (fun p => (p.1, some p.2)), i₁⟩ deps subs ed ev =
         buildReturnSig body ⟨c₂.map (fun p => (p.1, some p.2)), i₂⟩ deps subs ed ev) :
    c₁ = c₂ :=
  buildReturnSig_args_inj body deps subs ed ev c₁ c₂ i₁ i₂ hnames hnd h

/-- non-vacuity: three spellings of one binding of `def f(x, y=0)`, with a concrete signature -/
example :
    let ps := [{ name := "x" : Param }, { name := "y", default := some (.int 0) }]
    bind ps [.int 1] [] = bind ps [] [("x", .int 1)] ∧
    bind ps [.int 1] [] = bind ps [.int 1, .int 0] [] ∧
    (getArgCtx 10 ps [.int 1] []).toOption.isSome = true := by
  refine ⟨?_, ?_, ?_⟩
  · simp [bind, bindFrom, bindOne, lookupKw]
  · simp [bind, bindFrom, bindOne, lookupKw]
  · decide +kernel

end Dds.C13
