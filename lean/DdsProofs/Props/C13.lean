import DdsProofs.Args
import DdsProofs.Props.C05
/-!
# C13 — a kept call's signature depends on the argument binding, not on its spelling

For functions whose parameters are all plain (positional-or-keyword: the supported subset),
for **every** parameter list, spelling and value:

* `spelling_invariant` — two spellings with the same binding (`bind`) get the same argument context,
  on the direct route (`get_arg_ctx`);
* `source_eq_direct` — a call seen in source whose arguments are all literals gets exactly the argument
  context of the direct call with those values (`get_arg_ctx_ast` vs `get_arg_ctx`);
* `binding_injective` — equal argument contexts ⇒ equal bindings up to `canonKF` (C05): different
  bindings get different argument hashes;
* `sig_injective` — and the argument hashes are recoverable from the signature
  (`_build_return_sig`): equal signatures of one function ⇒ equal argument contexts.
-/
namespace Dds.C13
open Dds List

theorem spelling_invariant (m : Nat) (ps : List Param) (hp : plainParams ps = true)
    (a₁ a₂ : List PyVal) (k₁ k₂ : List (String × PyVal))
    (hb : bind ps a₁ k₁ = bind ps a₂ k₂) :
    getArgCtx m ps a₁ k₁ = getArgCtx m ps a₂ k₂ := by
  rw [getArgCtx_eq m ps a₁ k₁ hp, getArgCtx_eq m ps a₂ k₂ hp, hb]

theorem source_eq_direct (m : Nat) (ps : List Param) (hp : plainParams ps = true)
    (args : List PyVal) (kw : List (String × PyVal)) (c : List (String × Option Sg))
    (h : getArgCtx m ps args kw = .ok c) :
    getArgCtxAst m ps (constArgs args) (constKw kw) = .ok c :=
  getArgCtxAstFrom_const m args kw ps 0 c hp h

theorem binding_injective (m : Nat) (ps : List Param) (hp : plainParams ps = true)
    (a₁ a₂ : List PyVal) (k₁ k₂ : List (String × PyVal)) (c : List (String × Option Sg))
    (h₁ : getArgCtx m ps a₁ k₁ = .ok c) (h₂ : getArgCtx m ps a₂ k₂ = .ok c) :
    canonBinding (bind ps a₁ k₁) = canonBinding (bind ps a₂ k₂) := by
  rw [getArgCtx_eq m ps _ _ hp] at h₁ h₂
  exact hashBinding_inj m _ _ c h₁ h₂

/-- the argument hashes can be read back from the signature of a function: two calls of one
function (same body, dependencies, sub-calls, environment) with fully known arguments and equal
signatures have equal argument hashes, parameter by parameter. -/
theorem sig_injective (body : Option Sg) (deps : List (String × Sg)) (subs : List Sg)
    (ed : List (String × String)) (ev : List (String × Sg))
    (c₁ c₂ : List (String × Sg)) (i₁ i₂ : Option Sg)
    (hnames : c₁.map Prod.fst = c₂.map Prod.fst) (hnd : (c₁.map Prod.fst).Nodup)
    (h : buildReturnSig body ⟨c₁.map (fun p => (p.1, some p.2)), i₁⟩ deps subs ed ev =
         buildReturnSig body ⟨c₂.map (fun p => (p.1, some p.2)), i₂⟩ deps subs ed ev) :
    c₁ = c₂ :=
  buildReturnSig_args_inj body deps subs ed ev c₁ c₂ i₁ i₂ hnames hnd h

/-- **a `*args` parameter of a call seen in source** (outside `plainParams`; since the `fix:` commit for `*args`): the hash
recorded for the parameter determines, up to the canonical form of C05, the tuple of ALL the remaining positional literals -
two calls that bind different tuples to `*rest` do not share the hash of that parameter -/
theorem varpos_binding_injective (m : Nat) (p : Param) (hk : p.kind = .varPos) (idx : Nat)
    (args₁ args₂ : List PyVal) (kw₁ kw₂ : List (String × AstArg)) (h : Sg)
    (h₁ : argAst m (constArgs args₁) kw₁ idx p = .ok (some h))
    (h₂ : argAst m (constArgs args₂) kw₂ idx p = .ok (some h)) :
    canonKF (.list (args₁.drop idx)) = canonKF (.list (args₂.drop idx)) := by
  have key : ∀ (args : List PyVal) (kw : List (String × AstArg)),
      argAst m (constArgs args) kw idx p = .ok (some h) → ddsHash m (.list (args.drop idx)) = .ok h := by
    intro args kw e
    unfold argAst at e
    simp only [hk, ne_eq, reduceCtorEq, not_false_eq_true, not_true_eq_false, and_false, if_false, if_true] at e
    have hc : allConst ((constArgs args).drop idx) = some (args.drop idx) := by
      unfold constArgs
      rw [← List.map_drop]
      generalize args.drop idx = l
      induction l with
      | nil => rfl
      | cons a l ih => simp [allConst, ih]
    rw [hc] at e
    simp only at e
    cases hd : ddsHash m (.list (args.drop idx)) with
    | error er =>
      rw [hd] at e
      cases e
    | ok g =>
      rw [hd] at e
      have : g = h := by
        have e' : (Except.ok (some g) : Except ArgErr (Option Sg)) = .ok (some h) := e
        injection e' with e''
        injection e''
      rw [this]
  exact Dds.C05.inj_partial m _ _ h (key args₁ kw₁ h₁) (key args₂ kw₂ h₂)

/-- non-vacuity: `def g(a, *rest)` called as `g(1, 2, 3)` and as `g(1, 2, 4)`: the parameter `rest` gets two different hashes -/
example :
    let p : Param := { name := "rest", kind := .varPos }
    (argAst 10 (constArgs [.int 1, .int 2, .int 3]) [] 1 p).toOption.isSome = true ∧
    argAst 10 (constArgs [.int 1, .int 2, .int 3]) [] 1 p ≠ argAst 10 (constArgs [.int 1, .int 2, .int 4]) [] 1 p := by
  refine ⟨by decide +kernel, by decide +kernel⟩

/-- non-vacuity: three spellings of one binding of `def f(x, y=0)`, with a concrete signature -/
example :
    let ps := [{ name := "x" : Param }, { name := "y", default := some (.int 0) }]
    bind ps [.int 1] [] = bind ps [] [("x", .int 1)] ∧
    bind ps [.int 1] [] = bind ps [.int 1, .int 0] [] ∧
    (getArgCtx 10 ps [.int 1] []).toOption.isSome = true := by
  refine ⟨?_, ?_, ?_⟩
  · simp [bind, bindFrom, bindOne, lookupKw]
  · simp [bind, bindFrom, bindOne, lookupKw]
  · decide +kernel

end Dds.C13
