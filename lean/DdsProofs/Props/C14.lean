import DdsModel.Auth
/-!
# C14 — exactly the accepted modules are tracked (the matching part)

`prefix_iff`: a canonical path is authorised **iff** one of its prefixes, written as a dotted name, is an
accepted package — for every accepted set (however few or many entries) and every nesting depth.
Corollaries: acceptance is monotone in the accepted set, is inherited by sub-modules, and does not
depend on unrelated accepted packages.
-/
namespace Dds.C14
open Dds List

theorem prefix_iff (A cp : List String) :
    isAuthorizedPath A cp = true ↔ ∃ k, k ≤ cp.length ∧ dotted (cp.take k) ∈ A := by
  simp only [isAuthorizedPath, any_eq_true, mem_range, decide_eq_true_eq]
  constructor
  · rintro ⟨k, hk, h⟩; exact ⟨k, by omega, h⟩
  · rintro ⟨k, hk, h⟩; exact ⟨k, by omega, h⟩

/-- more accepted packages never un-authorise a path -/
theorem monotone (A B cp : List String) (hAB : ∀ a ∈ A, a ∈ B) (h : isAuthorizedPath A cp = true) :
    isAuthorizedPath B cp = true := by
  rw [prefix_iff] at h ⊢
  obtain ⟨k, hk, hm⟩ := h
  exact ⟨k, hk, hAB _ hm⟩

/-- everything below an accepted package is authorised, however deep -/
theorem submodule (A pre rest : List String) (h : dotted pre ∈ A) :
    isAuthorizedPath A (pre ++ rest) = true := by
  rw [prefix_iff]
  exact ⟨pre.length, by simp, by simpa using h⟩

/-- packages none of whose names is a prefix of the path are irrelevant -/
theorem unrelated_irrelevant (A B cp : List String)
    (hB : ∀ k, k ≤ cp.length → dotted (cp.take k) ∉ B) :
    isAuthorizedPath (A ++ B) cp = isAuthorizedPath A cp := by
  rw [Bool.eq_iff_iff, prefix_iff, prefix_iff]
  constructor
  · rintro ⟨k, hk, hm⟩
    rcases mem_append.mp hm with h | h
    · exact ⟨k, hk, h⟩
    · exact absurd h (hB k hk)
  · rintro ⟨k, hk, hm⟩; exact ⟨k, hk, mem_append.mpr (Or.inl hm)⟩

/-- acceptance depends on the accepted *set* only: neither the order in which `accept_module` was called
nor accepting a package twice matters -/
theorem set_only (A B cp : List String) (hAB : ∀ a, a ∈ A ↔ a ∈ B) :
    isAuthorizedPath A cp = isAuthorizedPath B cp := by
  rw [Bool.eq_iff_iff]
  exact ⟨monotone A B cp (fun a h => (hAB a).mp h), monotone B A cp (fun a h => (hAB a).mpr h)⟩

/-- accepting a package a second time, at any later moment, changes nothing -/
theorem accept_twice (A B : List String) (m : String) (cp : List String) :
    isAuthorizedPath (A ++ [m] ++ B ++ [m]) cp = isAuthorizedPath (A ++ [m] ++ B) cp :=
  set_only _ _ cp (fun a => by simp only [mem_append, mem_singleton]; grind)

/-- the order of two `accept_module` calls is irrelevant -/
theorem accept_order (A : List String) (m n : String) (cp : List String) :
    isAuthorizedPath (A ++ [m] ++ [n]) cp = isAuthorizedPath (A ++ [n] ++ [m]) cp :=
  set_only _ _ cp (fun a => by simp only [mem_append, mem_singleton]; grind)

/-- a late `accept_module` authorises exactly what it adds: a path that was refused and is accepted after
accepting `m` has `m` as one of its dotted prefixes -/
theorem late_accept_exact (A : List String) (m : String) (cp : List String)
    (h0 : isAuthorizedPath A cp = false) (h1 : isAuthorizedPath (A ++ [m]) cp = true) :
    ∃ k, k ≤ cp.length ∧ dotted (cp.take k) = m := by
  rw [prefix_iff] at h1
  obtain ⟨k, hk, hm⟩ := h1
  rcases mem_append.mp hm with h | h
  · have : isAuthorizedPath A cp = true := (prefix_iff A cp).mpr ⟨k, hk, h⟩
    rw [h0] at this; cases this
  · exact ⟨k, hk, by simpa using h⟩

/-- non-vacuity: depth 4, accepted at depth 4, with the three built-in entries only (the case the
code as originally written got wrong) -/
example : isAuthorizedPath ["dds", "__main__", "__global__", "p.q.r.s"] ["p", "q", "r", "s", "f"] = true := by
  decide +kernel

end Dds.C14
