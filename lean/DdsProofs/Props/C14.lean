import DdsModel.Auth
/-!
# C14 — exactly the accepted modules are tracked (the matching part)

`prefix_iff`: a canonical path is authorised **iff** one of its prefixes, written as a dotted name, is an
accepted package — for every accepted set (however few or many entries) and every nesting depth.
Corollaries: acceptance is monotone in the accepted set, is inherited by sub-modules, and does not
depend on unrelated accepted packages.
-/
namespace Dds.C14
open Dds List

theorem prefix_iff (A cp : List String) :
    isAuthorizedPath A cp = true ↔ ∃ k, k ≤ cp.length ∧ dotted (cp.take k) ∈ A := by
  simp only [isAuthorizedPath, any_eq_true, mem_range, decide_eq_true_eq]
  constructor
  · rintro ⟨k, hk, h⟩; exact ⟨k, by omega, h⟩
  · rintro ⟨k, hk, h⟩; exact ⟨k, by omega, h⟩

/-- more accepted packages never un-authorise a path -/
theorem monotone (A B cp : List String) (hAB : ∀ a ∈ A, a ∈ B) (h : isAuthorizedPath A cp = true) :
    isAuthorizedPath B cp = true := by
  rw [prefix_iff] at h ⊢
  obtain ⟨k, hk, hm⟩ := h
  exact ⟨k, hk, hAB _ hm⟩

/-- everything below an accepted package is authorised, however deep -/
theorem submodule (A pre rest : List String) (h : dotted pre ∈ A) :
    isAuthorizedPath A (pre ++ rest) = true := by
  rw [prefix_iff]
  exact ⟨pre.length, by simp, by simpa using h⟩

/-- packages none of whose names is a prefix of the path are irrelevant -/
theorem unrelated_irrelevant (A B cp : List String)
    (hB : ∀ k, k ≤ cp.length → dotted (cp.take k) ∉ B) :
    isAuthorizedPath (A ++ B) cp = isAuthorizedPath A cp := by
  rw [Bool.eq_iff_iff, prefix_iff, prefix_iff]
  constructor
  · rintro ⟨k, hk, hm⟩
    rcases mem_append.mp hm with h | h
    · exact ⟨k, hk, h⟩
    · exact absurd h (hB k hk)
  · rintro ⟨k, hk, hm⟩; exact ⟨k, hk, mem_append.mpr (Or.inl hm)⟩

/-- acceptance depends on the accepted *set* only: neither the order in which `accept_module` was called
nor accepting a package twice matters -/
theorem set_only (A B cp : List String) (hAB : ∀ a, a ∈ A ↔ a ∈ B) :
    isAuthorizedPath A cp = isAuthorizedPath B cp := by
  rw [Bool.eq_iff_iff]
  exact ⟨monotone A B cp (fun a h => (hAB a).mp h), monotone B A cp (fun a h => (hAB a).mpr h)⟩

/-- accepting a package a second time, at any later moment, changes nothing -/
theorem accept_twice (A B : List String) (m : String) (cp : List String) :
    isAuthorizedPath (A ++ [m] ++ B ++ [m]) cp = isAuthorizedPath (A ++ [m] ++ B) cp :=
  set_only _ _ cp (fun a => by simp only [mem_append, mem_singleton]; grind)

/-- the order of two `accept_module` calls is irrelevant -/
theorem accept_order (A : List String) (m n : String) (cp : List String) :
    isAuthorizedPath (A ++ [m] ++ [n]) cp = isAuthorizedPath (A ++ [n] ++ [m]) cp :=
  set_only _ _ cp (fun a => by simp only [mem_append, mem_singleton]; grind)

/-- a late `accept_module` authorises exactly what it adds: a path that was refused and is accepted after
accepting `m` has `m` as one of its dotted prefixes -/
theorem late_accept_exact (A : List String) (m : String) (cp : List String)
    (h0 : isAuthorizedPath A cp = false) (h1 : isAuthorizedPath (A ++ [m]) cp = true) :
    ∃ k, k ≤ cp.length ∧ dotted (cp.take k) = m := by
  rw [prefix_iff] at h1
  obtain ⟨k, hk, hm⟩ := h1
  rcases mem_append.mp hm with h | h
  · have : isAuthorizedPath A cp = true := (prefix_iff A cp).mpr ⟨k, hk, h⟩
    rw [h0] at this; cases this
  · exact ⟨k, hk, by simpa using h⟩

/-! ### which objects of an accepted module are tracked -/

/-- the two container options govern lists and dicts and nothing else: whatever they are set to - in any order, at any
moment before the evaluation - scalars, **tuples**, functions and modules of an accepted module stay tracked, and every other
kind keeps its treatment -/
theorem options_govern_containers_only (al ad al' ad' : Bool) (k : ObjKind) (hl : k ≠ .list) (hd : k ≠ .dict) :
    objTracking al ad k = objTracking al' ad' k := by
  cases k <;> simp_all [objTracking]

theorem tuple_always_tracked (al ad : Bool) : objTracking al ad .tuple = .tracked := rfl

/-- each option moves its own kind only, between *tracked* and *ignored* (never to a refusal) -/
theorem list_tracked_iff (al ad : Bool) : objTracking al ad .list = .tracked ↔ al = true := by
  cases al <;> simp [objTracking]
theorem dict_tracked_iff (al ad : Bool) : objTracking al ad .dict = .tracked ↔ ad = true := by
  cases ad <;> simp [objTracking]
theorem list_ignores_dict_option (al ad ad' : Bool) : objTracking al ad .list = objTracking al ad' .list := rfl
theorem dict_ignores_list_option (al al' ad : Bool) : objTracking al ad .dict = objTracking al' ad .dict := rfl

/-- with the default options (both on) exactly the instances of foreign / module-less classes are ignored and exactly
those of accepted classes are refused -/
theorem default_tracking (k : ObjKind) :
    (objTracking true true k = .ignored ↔ k = .noModule ∨ k = .ofForeign) ∧
    (objTracking true true k = .refused ↔ k = .ofAccepted) := by
  cases k <;> simp [objTracking]

/-- non-vacuity: depth 4, accepted at depth 4, with the three built-in entries only (the case the
code as originally written got wrong) -/
example : isAuthorizedPath ["dds", "__main__", "__global__", "p.q.r.s"] ["p", "q", "r", "s", "f"] = true := by
  decide +kernel

end Dds.C14
