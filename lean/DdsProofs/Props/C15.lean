import DdsProofs.EvalLemmas
import Generated.Facts
/-!
# C15 — restricting the stages makes an evaluation a side-effect-free dry run

For **every** world, store state and request:
* `analysis_only`: without the `eval` stage nothing runs, nothing is stored, nothing is committed;
* `no_commit`: without the `path_commit` stage every path is left as it was;
* `sigs_stage_independent`: the signatures computed do not depend on the stage list (nor on the debugging
  and graph-export flags);
* `parse_prefix`: `_parse_stages` accepts exactly the prefixes of the stage order (names in any case), and
  `stage_table` ties the stage order to the enum found in the code on this run.
-/
namespace Dds.C15
open Dds

theorem analysis_only (m : Nat) (W : World) (S : PStore) (rq : Request) (h : Stage.eval ∉ rq.stages) :
    (evalStep m W S rq).log = [] ∧ (evalStep m W S rq).store = S ∧
    ((evalStep m W S rq).value = .ok none ∨ ∃ e, (evalStep m W S rq).value = .error (.dds e)) := by
  unfold evalStep
  cases analysisPhase m W S rq with
  | error e => exact ⟨rfl, rfl, Or.inr ⟨e, rfl⟩⟩
  | ok r => obtain ⟨fn, env, fis, paths⟩ := r; simp [h]

theorem no_commit (m : Nat) (W : World) (S : PStore) (rq : Request) (h : Stage.pathCommit ∉ rq.stages) :
    (evalStep m W S rq).store.paths = S.paths := by
  unfold evalStep
  cases ha : analysisPhase m W S rq with
  | error e => rfl
  | ok r =>
    obtain ⟨fn, env, fis, paths⟩ := r
    simp only []
    by_cases hs : Stage.eval ∈ rq.stages
    · simp only [hs, not_true_eq_false, if_false]
      cases hb : sgGet S.blobs fis.retSig with
      | some v => simp [h]
      | none =>
        simp only []
        have hp := runFn_paths W paths W.fuel { store := S } fn env
        cases hr : runFn W paths W.fuel { store := S } fn env with
        | mk r st =>
          rw [hr] at hp
          cases r with
          | error e => exact hp
          | ok v =>
            simp only []
            cases fis.storePath with
            | none => simp only [h, if_false]; exact hp
            | some p =>
              simp only []
              cases aget paths p with
              | none => exact hp
              | some key => simp [h, storeBlob_paths']; exact hp
    · simp [hs]

theorem sigs_stage_independent (m : Nat) (W : World) (S : PStore) (rq : Request) (stages : List Stage)
    (dbg exportG : Bool) :
    analysisPhase m W S { rq with stages := stages, extraDebug := dbg, exportGraph := exportG } =
    analysisPhase m W S rq := rfl

/-- `_parse_stages` on upper-cased names: every given name must be the stage at its position -/
def parseStages : List String → List String → Option (List String)
  | [], _ => some []
  | _, [] => some []
  | x :: xs, s :: ss => if x.toUpper = s then (parseStages xs ss).map (s :: ·) else none

theorem parse_prefix (xs order r : List String) (h : parseStages xs order = some r) :
    r = order.take xs.length ∧ r.length = min xs.length order.length := by
  induction xs generalizing order r with
  | nil => simp [parseStages] at h; subst h; simp
  | cons x xs ih =>
    cases order with
    | nil => simp [parseStages] at h; subst h; simp
    | cons s ss =>
      simp only [parseStages] at h
      split at h
      · cases hp : parseStages xs ss with
        | none => simp [hp] at h
        | some r' =>
          simp [hp] at h; subst h
          obtain ⟨h1, h2⟩ := ih ss r' hp
          exact ⟨by simp [h1], by simp [h2]⟩
      · cases h

/-- Tie B: the stage order the model uses is the one of the enum in the code imported on this run -/
theorem stage_table : Facts.stageOrder = ["ANALYSIS", "STORE_INSPECT", "EVAL", "STORE_COMMIT", "PATH_COMMIT"] ∧
    Facts.stageValues = ["analysis", "store_inspect", "eval", "store_commit", "path_commit"] := by decide

/-- non-vacuity: the documented dry run -/
example : parseStages ["analysis"] Facts.stageOrder = some ["ANALYSIS"] := by decide +kernel

end Dds.C15
