import DdsModel.Config
import DdsProofs.Props.C12
import DdsProofs.Props.C08
/-!
# C16 — every usable local-store configuration works; data dirs are independent views

* `abs_clean`: the directories a store uses are absolute and normalised whatever the spelling (relative,
  trailing separators, `.` / `..`): no empty, `.` or `..` component survives — and `abs_ignores_cwd`: an
  absolute spelling does not depend on the working directory at all; since the store keeps these absolute
  directories, no later operation depends on the working directory (the request-level model `LocalSt` of
  C08 has no working directory);
* `views_share_blobs`, `view_paths_independent`: two stores on one internal directory answer presence
  checks identically after any operation on either, and an operation through one view never changes the
  other view's paths; each view by itself is a `LocalSt`, so the refinement of C08 applies to it;
* the capacity chosen by `cache_objects` is `decodeCacheObjects` (theorems `C12.decode_*`).
Symbolic links in parents of the configured directories are exercised by the check, not modelled (partial).
-/
namespace Dds.C16
open Dds List

def Clean (s : String) : Prop := s ≠ "" ∧ s ≠ "." ∧ s ≠ ".."

theorem normSegs_clean : ∀ (ss acc : List String), (∀ s ∈ acc, Clean s) → ∀ s ∈ normSegs acc ss, Clean s
  | [], acc, h => by simpa [normSegs] using h
  | x :: xs, acc, h => by
    unfold normSegs
    split
    · exact normSegs_clean xs acc h
    · split
      · exact normSegs_clean xs acc.tail (fun s hs => h s (mem_of_mem_tail hs))
      · rename_i h1 h2
        refine normSegs_clean xs (x :: acc) ?_
        intro s hs
        rcases mem_cons.mp hs with rfl | hs
        · exact ⟨fun e => h1 (Or.inl e), fun e => h1 (Or.inr e), h2⟩
        · exact h s hs

theorem abs_clean (cwd : List String) (p : String) : ∀ s ∈ absPath cwd p, Clean s := by
  unfold absPath
  split <;> exact normSegs_clean _ [] (by intro s hs; cases hs)

/-- on segments that are already clean, normalisation does nothing -/
theorem normSegs_of_clean : ∀ (ss acc : List String), (∀ s ∈ ss, Clean s) → normSegs acc ss = acc.reverse ++ ss
  | [], acc, _ => by simp [normSegs]
  | x :: xs, acc, h => by
    have hx := h x (mem_cons_self ..)
    have h1 : ¬ (x = "" ∨ x = ".") := fun e => e.elim hx.1 hx.2.1
    have ih := normSegs_of_clean xs (x :: acc) (fun s hs => h s (mem_cons_of_mem _ hs))
    simp only [normSegs, h1, hx.2.2, if_false, ih, reverse_cons, append_assoc, singleton_append]

/-- the absolute directory a store keeps is a fixed point of the normalisation: making it absolute again - from any
working directory, as a store built later from the kept directory would - gives the same directory (on segments) -/
theorem abs_idempotent (cwd : List String) (p : String) (acc : List String) :
    normSegs acc (absPath cwd p) = acc.reverse ++ absPath cwd p :=
  normSegs_of_clean _ acc (abs_clean cwd p)

/-- a `..` never climbs above the root: the result is the same with any number of leading `..` -/
theorem dotdot_at_root (ss : List String) : normSegs [] (".." :: ss) = normSegs [] ss := by
  simp [normSegs]

theorem abs_ignores_cwd (c c' : List String) (p : String) (h : p.startsWith "/" = true) :
    absPath c p = absPath c' p := by
  simp [absPath, h]

theorem views_share_blobs (v : Views) (op : StoreOp) (k : Key) :
    ((v.stepA op).1.a.step (.has k)).2 = ((v.stepA op).1.b.step (.has k)).2 ∧
    ((v.stepB op).1.a.step (.has k)).2 = ((v.stepB op).1.b.step (.has k)).2 := ⟨rfl, rfl⟩

theorem view_paths_independent (v : Views) (op : StoreOp) :
    (v.stepA op).1.linksB = v.linksB ∧ (v.stepB op).1.linksA = v.linksA := ⟨rfl, rfl⟩

/-- through each view, the store is the local store of C08 -/
theorem view_is_local (v : Views) (op : StoreOp) :
    (v.stepA op).2 = (v.a.step op).2 ∧ (v.stepA op).1.a = (v.a.step op).1 ∧
    (v.stepB op).2 = (v.b.step op).2 ∧ (v.stepB op).1.b = (v.b.step op).1 := ⟨rfl, rfl, rfl, rfl⟩

/-- non-vacuity: spellings of one directory -/
example : absPath ["home", "u"] "store/internal/" = ["home", "u", "store", "internal"] ∧
    absPath ["home", "u"] "../x/./y//" = ["home", "x", "y"] ∧
    absPath ["elsewhere"] "/abs/dir" = ["abs", "dir"] := by decide +kernel

end Dds.C16
