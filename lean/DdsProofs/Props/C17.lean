import DdsProofs.Codec
import Generated.Facts
/-!
# C17 — results are read back with the codec that wrote them, text and bytes verbatim

* `same_codec`: a blob written with codec `c` (its reference is recorded in the metadata) is read back with
  `c`, after **any** sequence of codec registrations in between — in this or another process — that does
  not bind `c`'s reference to a different codec;
* `file_codecs_never_rebind`: registrations through `add_file_codec` never re-bind any reference;
* `text_verbatim`: the bytes stored for a `str` are its UTF-8 text, and different texts give different files
  (for `bytes` the stored bytes are the value itself);
* `default_registry` (Tie B, re-read from the code on every run): which codec writes each result type;
* `reference_kinds`: every protocol reference of the default registry is bound to a codec of the kind its
  name says.
-/
namespace Dds.C17
open Dds List

theorem same_codec (r : Registry) (c : Codec) (ops : List RegOp)
    (hwrite : aget r.protocols c.ref = some c)
    (hops : ∀ op ∈ ops, op.codec.ref = c.ref → op.codec = c) :
    (ops.foldl Registry.apply r).getCodec none (some c.ref) = .ok c := by
  simp [Registry.getCodec, protocols_preserved_all c ops r hwrite hops]

theorem file_codecs_never_rebind (r : Registry) (c c' : Codec) (h : aget r.protocols c.ref = some c) :
    aget (r.addFileCodec c').protocols c.ref = some c := by
  simp only [Registry.addFileCodec]
  split
  · exact h
  · rename_i hn
    by_cases hr : c'.ref = c.ref
    · rw [hr, h] at hn; simp at hn
    · rw [aget_aset_ne _ _ _ _ (Ne.symm hr)]; exact h

/-- the string codec stores the UTF-8 text: equal files ⇒ equal strings -/
theorem text_verbatim (s t : String) (h : utf8 s = utf8 t) : s = t := utf8_inj h

/-- kind of codec a protocol reference names / a codec class implements -/
def kindOfRef (r : String) : String :=
  if r = "local.string" ∨ r = "dbfs.string" then "string"
  else if r = "local.bytes" ∨ r = "dbfs.bytes" then "bytes"
  else if r = "local.pickle" ∨ r = "dbfs.pickle" then "pickle"
  else if r = "local.pandas" ∨ r = "default.pandas_local" then "pandas"
  else if r = "dbfs.pyspark" then "pyspark"
  else "unknown:" ++ r

def kindOfClass (c : String) : String :=
  if c = "StringLocalFileCodec" then "string"
  else if c = "BytesFileCodec" then "bytes"
  else if c = "PickleLocalFileCodec" then "pickle"
  else if c = "PandasFileCodec" then "pandas"
  else if c = "PySparkDatabricksCodec" then "pyspark"
  else "unknown-class:" ++ c

/-- Tie B: the default registry found in the code on this run -/
theorem default_registry :
    Facts.localTypeCodec = [("str", "local.string"), ("bytes", "local.bytes"), ("bytearray", "local.bytes"),
      ("NoneType", "local.pickle"), ("int", "local.pickle"), ("dict", "local.pickle"), ("list", "local.pickle"),
      ("object", "local.pickle"), ("OrderedDict", "local.pickle"), ("pandas.DataFrame", "local.pandas")] ∧
    Facts.dbfsTypeCodec = Facts.localTypeCodec := by decide +kernel

/-- Tie B: every reference of the default registry is bound to a codec of the kind its name says
(the DBFS registry with its legacy references is C19's `legacy_alias_kind`) -/
theorem reference_kinds :
    Facts.localRefCodec.all (fun rc => kindOfRef rc.1 == kindOfClass rc.2) = true := by
  decide +kernel

/-- non-vacuity of `same_codec`: the default string codec survives the registration of a user codec -/
example :
    let str : Codec := { ref := "local.string", impl := "StringLocalFileCodec", types := ["str"] }
    let user : Codec := { ref := "user.codec", impl := "User", types := ["mytype", "str"] }
    let r := (({} : Registry).addFileCodec str)
    (r.addCodec user).getCodec none (some "local.string") = .ok str ∧
    (r.addCodec user).getCodec (some "str") none = .ok user := by decide +kernel

end Dds.C17
