import DdsModel.Graph
import DdsModel.Eval
import DdsProofs.Structure
/-!
# C18 — graph export is faithful and does not perturb the evaluation

* `export_no_effect`: requesting the graph changes neither the result, nor the store, nor the signatures;
* `nodes_complete`: every kept path of the interaction tree is a node of the graph;
* `solid_sources_are_heads`: the solid edges into a kept call are exactly its visible kept sub-nodes;
* `dashed_sources_are_loads`: the dashed edges into a kept call are exactly the paths it loads.
The Lean `graphOf` is the *specification* of the graph (what the property states); `_plotting._structure`
is compared with it on every generated pipeline (nodes, solid and dashed edges exactly; dotted edges only
constrained; acyclicity checked on the exported graph).

`DdsModel/Structure.lean` is a line-by-line model of `_structure` itself (`structureM`: its dictionaries threaded through the
traversal), compared **exactly** — every node, every solid, dashed and dotted edge — with the real graph on every generated
pipeline. About it:
* `reaches_decides_reachability`: the search `reaches` added by the `fix:` commit for cycles of dotted edges decides
  reachability, for every edge list (its `E.length + 1` rounds always suffice);
* `guard_is_sufficient`: adding an edge whose target does not reach its source keeps an acyclic edge list acyclic;
* `implicit_edges_keep_acyclic`: the whole loop that records the implicit (call-order) edges of one function keeps the
  recorded edges acyclic, from any state.
PARTIAL: that the solid and dashed edges recorded by `structureM` are those of `graphOf`, and that they are acyclic by
themselves, is decided by the comparison, not proved.
-/
namespace Dds.C18
open Dds List

theorem export_no_effect (m : Nat) (W : World) (S : PStore) (rq : Request) (g : Bool) :
    (evalStep m W S { rq with exportGraph := g }).value = (evalStep m W S rq).value ∧
    (evalStep m W S { rq with exportGraph := g }).store = (evalStep m W S rq).store ∧
    (evalStep m W S { rq with exportGraph := g }).requested = (evalStep m W S rq).requested :=
  ⟨rfl, rfl, rfl⟩

theorem mem_addNew {α} [DecidableEq α] (l : List α) (a x : α) : x ∈ addNew l a ↔ x ∈ l ∨ x = a := by
  unfold addNew
  split
  · constructor
    · exact Or.inl
    · rintro (h | h)
      · exact h
      · subst h; assumption
  · simp

theorem mem_addAll {α} [DecidableEq α] (as : List α) : ∀ (l : List α) (x : α), x ∈ addAll l as ↔ x ∈ l ∨ x ∈ as := by
  induction as with
  | nil => intro l x; simp [addAll]
  | cons a as ih =>
    intro l x
    have := ih (addNew l a) x
    simp only [addAll, foldl_cons] at this ⊢
    rw [this, mem_addNew]
    simp only [mem_cons]
    constructor
    · rintro ((h | h) | h)
      · exact Or.inl h
      · exact Or.inr (Or.inl h)
      · exact Or.inr (Or.inr h)
    · rintro (h | h | h)
      · exact Or.inl (Or.inl h)
      · exact Or.inl (Or.inr h)
      · exact Or.inr h

mutual
/-- all kept paths of an interaction tree -/
def keptPaths : FIS → List String
  | .mk _ _ (some p) subs _ => p :: keptPathsL subs
  | .mk _ _ none subs _ => keptPathsL subs
def keptPathsL : List FIS → List String
  | [] => []
  | f :: fs => keptPaths f ++ keptPathsL fs
end

mutual
theorem graphAcc_nodes : ∀ (f : FIS) (g : Graph),
    (∀ n ∈ g.nodes, n ∈ (graphAcc g f).nodes) ∧ (∀ p ∈ keptPaths f, p ∈ (graphAcc g f).nodes)
  | .mk _ _ none subs _, g => by
    simp only [graphAcc, keptPaths]
    exact graphAccL_nodes subs g
  | .mk _ _ (some v) subs loads, g => by
    obtain ⟨h1, h2⟩ := graphAccL_nodes subs g
    simp only [graphAcc, keptPaths]
    refine ⟨?_, ?_⟩
    · intro n hn
      rw [mem_addAll, mem_addNew]
      exact Or.inl (Or.inl (h1 n hn))
    · intro p hp
      rw [mem_addAll, mem_addNew]
      rcases mem_cons.mp hp with h | h
      · exact Or.inl (Or.inr h)
      · exact Or.inl (Or.inl (h2 p h))
theorem graphAccL_nodes : ∀ (fs : List FIS) (g : Graph),
    (∀ n ∈ g.nodes, n ∈ (graphAccL g fs).nodes) ∧ (∀ p ∈ keptPathsL fs, p ∈ (graphAccL g fs).nodes)
  | [], g => by simp [graphAccL, keptPathsL]
  | f :: fs, g => by
    obtain ⟨a1, a2⟩ := graphAcc_nodes f g
    obtain ⟨b1, b2⟩ := graphAccL_nodes fs (graphAcc g f)
    simp only [graphAccL, keptPathsL]
    refine ⟨fun n hn => b1 n (a1 n hn), ?_⟩
    intro p hp
    rcases mem_append.mp hp with h | h
    · exact b1 p (a2 p h)
    · exact b2 p h
end

/-- every kept path of the evaluation appears as a node -/
theorem nodes_complete (fis : FIS) : ∀ p ∈ keptPaths fis, p ∈ (graphOf fis).nodes :=
  (graphAcc_nodes fis {}).2

/-- the solid edges into a kept call come from exactly its visible kept sub-nodes -/
theorem solid_sources_are_heads (g : Graph) (n : String) (s : Sg) (v : String) (subs : List FIS) (loads : List (String × Sg))
    (u : String) :
    (u, v) ∈ (graphAcc g (.mk n s (some v) subs loads)).solid ↔
      (u, v) ∈ (graphAccL g subs).solid ∨ u ∈ headsL subs := by
  simp only [graphAcc, mem_addAll, mem_map, Prod.mk.injEq]
  constructor
  · rintro (h | ⟨a, ha, h1⟩)
    · exact Or.inl h
    · simp at h1; subst h1; exact Or.inr ha
  · rintro (h | h)
    · exact Or.inl h
    · exact Or.inr ⟨u, h, by simp⟩

/-- the dashed edges into a kept call come from exactly the paths it loads (whether or not the same path is
also a solid source: since the `fix:` commit for loads of a direct dependency both edges are shown) -/
theorem dashed_sources_are_loads (g : Graph) (n : String) (s : Sg) (v : String) (subs : List FIS) (loads : List (String × Sg))
    (u : String) :
    (u, v) ∈ (graphAcc g (.mk n s (some v) subs loads)).dashed ↔
      (u, v) ∈ (graphAccL g subs).dashed ∨ u ∈ loads.map Prod.fst := by
  simp only [graphAcc, mem_addAll, mem_map, Prod.mk.injEq]
  constructor
  · rintro (h | ⟨a, ha, h1⟩)
    · exact Or.inl h
    · exact Or.inr ⟨a, ha, h1.1⟩
  · rintro (h | ⟨a, ha, h1⟩)
    · exact Or.inl h
    · exact Or.inr ⟨a, ha, h1, trivial⟩

/-- `reaches` (the guard of the `fix:` commit) decides reachability along the recorded edges -/
theorem reaches_decides_reachability (E : List (Sg × Sg)) (a b : Sg) : reaches E a b = true ↔ Reach E a b :=
  reaches_iff E a b

/-- an edge whose target does not reach its source can be added without creating a cycle -/
theorem guard_is_sufficient (E : List (Sg × Sg)) (a b : Sg) (hE : Acyclic E) (hne : a ≠ b) (hg : reaches E b a = false) :
    Acyclic ((a, b) :: E) :=
  guarded_insert_acyclic E a b hE hne hg

/-- the loop over `start_nodes` × `l1` of `_structure` never closes a cycle -/
theorem implicit_edges_keep_acyclic (subSet : List Sg) (startNodes l1 : List GNode) (st : SSt) (h : Acyclic st.edgeKeys) :
    Acyclic (implicitEdges subSet startNodes l1 st).edgeKeys :=
  implicitEdges_acyclic subSet startNodes l1 st h

/-- non-vacuity: the three call-order edges b → c, a → b, c → a of the repaired defect: the third one is refused -/
example : reaches [(Sg.X [("b", .H [])], Sg.X [("c", .H [])]), (Sg.X [("a", .H [])], Sg.X [("b", .H [])])]
    (Sg.X [("a", .H [])]) (Sg.X [("c", .H [])]) = true := by decide +kernel

end Dds.C18
