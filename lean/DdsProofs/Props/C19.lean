import DdsProofs.Codec
import DdsProofs.Props.C17
/-!
# C19 — the DBFS store honours its commit type and keeps legacy blobs readable

For **every** store state and **every** path ↦ key map (request-level model of `DBFSStore` over the
dbutils file-system API):
* `commit_none`: with commit type `none` a commit changes nothing under the data directory;
* `commit_links_only`: with `links_only` every path's record points to its key, the data copies and the blobs
  are untouched;
* `commit_full`: with `full`, if the blobs of the committed keys exist, the commit succeeds, every path's
  record points to its key, and every recorded path has a byte-identical copy of its blob (`DbfsFullInv`);
* `documented_names_accepted` (Tie B): `set_store` accepts the three documented spellings;
* `legacy_alias_kind` (Tie B): each legacy reference `dbfs.*` is bound to the codec of the same kind.
-/
namespace Dds.C19
open Dds List

theorem commit_none (s : DbfsSt) (ps : List (DPath × Key)) : s.syncAll .noCommit ps = (s, true) :=
  dbfs_sync_none s ps

theorem commit_links_only (s : DbfsSt) (ps : List (DPath × Key)) :
    (s.syncAll .linkOnly ps).2 = true ∧ (s.syncAll .linkOnly ps).1.data = s.data ∧
    (s.syncAll .linkOnly ps).1.blobs = s.blobs ∧
    ∀ q, aget (s.syncAll .linkOnly ps).1.redirect q = (lastKey ps q).orElse (fun _ => aget s.redirect q) := by
  obtain ⟨h1, h2, h3, _, h5⟩ := dbfs_sync_link ps s
  exact ⟨h1, h2, h3, h5⟩

theorem commit_full (s : DbfsSt) (ps : List (DPath × Key)) (hinv : DbfsFullInv s)
    (hst : ∀ pk ∈ ps, (aget s.metas pk.2).isSome ∧ (aget s.blobs pk.2).isSome) :
    (s.syncAll .full ps).2 = true ∧ DbfsFullInv (s.syncAll .full ps).1 ∧
    ∀ q, aget (s.syncAll .full ps).1.redirect q = (lastKey ps q).orElse (fun _ => aget s.redirect q) := by
  obtain ⟨h1, h2, _, _, h5⟩ := dbfs_sync_full ps s hinv hst
  exact ⟨h1, h2, h5⟩

/-- no commit, of any type, successful or not, ever touches the content-addressed area: the blobs and their
protocol records (legacy ones included) are what they were -/
theorem commit_keeps_blobs (ct : CommitType) : ∀ (ps : List (DPath × Key)) (s : DbfsSt),
    (s.syncAll ct ps).1.blobs = s.blobs ∧ (s.syncAll ct ps).1.metas = s.metas
  | [], s => by simp [DbfsSt.syncAll]
  | (p, k) :: ps, s => by
    cases ct with
    | noCommit => simp [DbfsSt.syncAll]
    | linkOnly =>
      simp only [DbfsSt.syncAll]
      split
      · exact commit_keeps_blobs .linkOnly ps s
      · exact commit_keeps_blobs .linkOnly ps _
    | full =>
      simp only [DbfsSt.syncAll]
      split
      · exact commit_keeps_blobs .full ps s
      · split
        · exact commit_keeps_blobs .full ps _
        · exact ⟨rfl, rfl⟩

/-- a failed `full` commit (a blob is missing) has written only complete entries: the copy invariant still holds -/
theorem failed_full_commit_keeps_inv : ∀ (ps : List (DPath × Key)) (s : DbfsSt), DbfsFullInv s →
    (∀ pk ∈ ps, (aget s.metas pk.2).isSome ∧ (aget s.blobs pk.2).isSome) → DbfsFullInv (s.syncAll .full ps).1 :=
  fun ps s hinv hst => (dbfs_sync_full ps s hinv hst).2.1

/-- a path committed by the last commit resolves to its key (`load` works whenever the record exists) -/
theorem committed_path_resolves (s : DbfsSt) (ps : List (DPath × Key)) (p : DPath) (k : Key)
    (h : lastKey ps p = some k) :
    aget (s.syncAll .linkOnly ps).1.redirect p = some k := by
  rw [(commit_links_only s ps).2.2.2 p, h]; rfl

/-- Tie B: the documented spellings of the commit type are accepted and mean what the documentation says -/
theorem documented_names_accepted :
    aget Facts.commitTypeSpellings "full" = some (some "FULL") ∧
    aget Facts.commitTypeSpellings "links_only" = some (some "LINK_ONLY") ∧
    aget Facts.commitTypeSpellings "none" = some (some "NO_COMMIT") ∧
    Facts.commitTypeDefault = "FULL" := by decide +kernel

/-- Tie B: legacy references are bound to the codec of the same kind -/
theorem legacy_alias_kind :
    Facts.dbfsRefCodec.all (fun rc => C17.kindOfRef rc.1 == C17.kindOfClass rc.2) = true ∧
    (aget Facts.dbfsRefCodec "dbfs.string").isSome ∧ (aget Facts.dbfsRefCodec "dbfs.bytes").isSome ∧
    (aget Facts.dbfsRefCodec "dbfs.pickle").isSome := by decide +kernel

end Dds.C19
