import DdsModel.Scope
/-!
# The names the analysis looks up in the module are exactly the names Python reads from the module

`dds_names_eq`: for every function body of the fragment (any nesting of lambdas, comprehensions and nested functions,
any `global` / `nonlocal` declarations), the one-set computation of the code (`ddsNames`) gives, occurrence by occurrence,
the names that Python's chain of scopes resolves to the module (`pyGlobalReads`).
-/
namespace Dds.Scope
open List

/-- the local names the code holds inside the scopes of a chain (innermost first) -/
def flat : List Sc → List String
  | [] => []
  | s :: rest => enter (flat rest) [] s.bound s.globs

theorem mem_enter {L ps b g : List String} {x : String} :
    x ∈ enter L ps b g ↔ x ∉ g ∧ (x ∈ L ∨ x ∈ ps ∨ x ∈ b) := by
  simp only [enter, mem_append, mem_filter, decide_eq_true_eq]
  constructor
  · rintro (⟨h1, h2⟩ | ⟨h1 | h1, h2⟩)
    · exact ⟨h2, Or.inl h1⟩
    · exact ⟨h2, Or.inr (Or.inl h1)⟩
    · exact ⟨h2, Or.inr (Or.inr h1)⟩
  · rintro ⟨h2, h1 | h1 | h1⟩
    · exact Or.inl ⟨h1, h2⟩
    · exact Or.inr ⟨Or.inl h1, h2⟩
    · exact Or.inr ⟨Or.inr h1, h2⟩

/-- **one set is enough**: a name is in the set of local names the code holds exactly when Python's chain of scopes
does not resolve it to the module -/
theorem mem_flat (x : String) : ∀ (chain : List Sc), x ∈ flat chain ↔ isGlobal chain x = false
  | [] => by simp [flat, isGlobal]
  | s :: rest => by
    simp only [flat, mem_enter, isGlobal, mem_flat x rest]
    by_cases hg : x ∈ s.globs
    · simp [hg]
    · by_cases hb : x ∈ s.bound
      · simp [hg, hb]
      · simp [hg, hb]

/-- two sets of local names with the same members give the same look-ups -/
theorem extE_congr : ∀ (e : Expr) (L L' : List String), (∀ x, x ∈ L ↔ x ∈ L') → extE L e = extE L' e
  | .name x, L, L', h => by
    simp only [extE]
    by_cases hx : x ∈ L
    · simp [hx, (h x).mp hx]
    · have : x ∉ L' := fun h' => hx ((h x).mpr h')
      simp [hx, this]
  | .const, _, _, _ => rfl
  | .attr e _, L, L', h => by simp only [extE]; exact extE_congr e L L' h
  | .app f a, L, L', h => by simp only [extE, extE_congr f L L' h, extE_congr a L L' h]
  | .lam ps body, L, L', h => by
    simp only [extE]
    exact extE_congr body _ _ (fun x => by simp only [mem_enter, h x])
  | .comp ts it inn, L, L', h => by
    simp only [extE, extE_congr it L L' h]
    congr 1
    exact extE_congr inn _ _ (fun x => by simp only [mem_enter, h x])
  | .walrus _ e, L, L', h => by simp only [extE]; exact extE_congr e L L' h

theorem extS_congr : ∀ (s : Stmt) (L L' : List String), (∀ x, x ∈ L ↔ x ∈ L') → extS L s = extS L' s
  | .expr e, L, L', h => by simp only [extS]; exact extE_congr e L L' h
  | .assign _ e, L, L', h => by simp only [extS]; exact extE_congr e L L' h
  | .del _, _, _, _ => rfl
  | .global _, _, _, _ => rfl
  | .nonlocal _, _, _, _ => rfl
  | .exceptAs _, _, _, _ => rfl
  | .defn _ ps hdr body, L, L', h => by
    simp only [extS, extE_congr hdr L L' h]
    congr 1
    exact extS_congr body _ _ (fun x => by simp only [mem_enter, h x])
  | .seq a b, L, L', h => by simp only [extS, extS_congr a L L' h, extS_congr b L L' h]
  | .skip, _, _, _ => rfl

/-- entering a scope from the flattened chain is the flattening of the longer chain -/
theorem enter_flat (chain : List Sc) (ps b g : List String) (x : String) :
    x ∈ enter (flat chain) ps b g ↔ x ∈ flat (⟨ps ++ b, g⟩ :: chain) := by
  simp only [flat, mem_enter, mem_append]
  constructor
  · rintro ⟨h1, h2 | h2 | h2⟩
    · exact ⟨h1, Or.inl h2⟩
    · exact ⟨h1, Or.inr (Or.inr (Or.inl h2))⟩
    · exact ⟨h1, Or.inr (Or.inr (Or.inr h2))⟩
  · rintro ⟨h1, h2 | h2 | h2 | h2⟩
    · exact ⟨h1, Or.inl h2⟩
    · cases h2
    · exact ⟨h1, Or.inr (Or.inl h2)⟩
    · exact ⟨h1, Or.inr (Or.inr h2)⟩

theorem extE_reads : ∀ (e : Expr) (chain : List Sc), extE (flat chain) e = readsE chain e
  | .name x, chain => by
    simp only [extE, readsE]
    by_cases hx : x ∈ flat chain
    · simp [hx, (mem_flat x chain).mp hx]
    · have : isGlobal chain x = true := by
        cases hg : isGlobal chain x with
        | true => rfl
        | false => exact absurd ((mem_flat x chain).mpr hg) hx
      simp [hx, this]
  | .const, _ => rfl
  | .attr e _, chain => by simp only [extE, readsE]; exact extE_reads e chain
  | .app f a, chain => by simp only [extE, readsE, extE_reads f chain, extE_reads a chain]
  | .lam ps body, chain => by
    simp only [extE, readsE]
    rw [extE_congr body _ _ (enter_flat chain ps (boundE body) [])]
    exact extE_reads body _
  | .comp ts it inn, chain => by
    simp only [extE, readsE, extE_reads it chain]
    congr 1
    rw [extE_congr inn _ _ (enter_flat chain [] ts [])]
    exact extE_reads inn _
  | .walrus _ e, chain => by simp only [extE, readsE]; exact extE_reads e chain

theorem extS_reads : ∀ (s : Stmt) (chain : List Sc), extS (flat chain) s = readsS chain s
  | .expr e, chain => by simp only [extS, readsS]; exact extE_reads e chain
  | .assign _ e, chain => by simp only [extS, readsS]; exact extE_reads e chain
  | .del _, _ => rfl
  | .global _, _ => rfl
  | .nonlocal _, _ => rfl
  | .exceptAs _, _ => rfl
  | .defn _ ps hdr body, chain => by
    simp only [extS, readsS, extE_reads hdr chain]
    congr 1
    rw [extS_congr body _ _ (enter_flat chain ps (boundS body) (globalsS body))]
    exact extS_reads body _
  | .seq a b, chain => by simp only [extS, readsS, extS_reads a chain, extS_reads b chain]
  | .skip, _ => rfl

/-- **the analysis looks up exactly the module names of the function**, occurrence by occurrence -/
theorem dds_names_eq (params : List String) (body : Stmt) : ddsNames params body = pyGlobalReads params body := by
  unfold ddsNames pyGlobalReads
  have h := extS_congr body _ (flat [⟨params ++ boundS body, globalsS body⟩]) (enter_flat [] params (boundS body) (globalsS body))
  simp only [flat] at h ⊢
  rw [h]
  exact extS_reads body [⟨params ++ boundS body, globalsS body⟩]

/-! ## The computation before the fix misses module names -/

/-- `def f(): return X + sum([X for X in range(3)])` -/
def shadowComp : Stmt :=
  .expr (.app (.name "X") (.app (.name "sum") (.comp ["X"] (.app (.name "range") .const) (.name "X"))))

/-- `def f():  def inner(): Z = 5; return Z  ;  return inner() + Z` -/
def shadowNested : Stmt :=
  .seq (.defn "inner" [] .const (.seq (.assign ["Z"] .const) (.expr (.name "Z"))))
    (.expr (.app (.app (.name "inner") .const) (.name "Z")))

theorem old_misses_comprehension : "X" ∈ pyGlobalReads [] shadowComp ∧ "X" ∉ oldNames [] shadowComp := by decide
theorem old_misses_nested : "Z" ∈ pyGlobalReads [] shadowNested ∧ "Z" ∉ oldNames [] shadowNested := by decide
example : "X" ∈ ddsNames [] shadowComp ∧ "Z" ∈ ddsNames [] shadowNested ∧ "inner" ∉ ddsNames [] shadowNested := by decide

end Dds.Scope
