import DdsProofs.SigSound
/-!
# The signature determines the shape of the interaction tree

Two analysed calls with the same return signature have interaction trees of the same shape: the same calls below are kept,
at the same paths, with the same signatures, and every body loads the same paths, resolved to the same signatures
(`sig_shape`). Consequently two plain states that each hold, at every loaded path, the blob of the signature the path
resolved to (`loadsOK`, with respect to one blob map) agree on all the paths the call loads (`loadsOK_agree`).
-/
namespace Dds
open List

mutual
def SameShape : FIS → FIS → Prop
  | .mk _ s1 p1 subs1 l1, .mk _ s2 p2 subs2 l2 =>
    s1 = s2 ∧ p1 = p2 ∧ (∀ p s, (p, s) ∈ l1 ↔ (p, s) ∈ l2) ∧ SameShapeL subs1 subs2
def SameShapeL : List FIS → List FIS → Prop
  | [], [] => True
  | a :: as, b :: bs => SameShape a b ∧ SameShapeL as bs
  | [], _ :: _ => False
  | _ :: _, [] => False
end

theorem SameShapeL.append : ∀ (a b c d : List FIS), SameShapeL a b → SameShapeL c d → SameShapeL (a ++ c) (b ++ d)
  | [], [], _, _, _, h => h
  | x :: a, y :: b, c, d, h1, h2 => by
    simp only [cons_append, SameShapeL] at h1 ⊢
    exact ⟨h1.1, SameShapeL.append a b c d h1.2 h2⟩
  | [], _ :: _, _, _, h, _ => by simp [SameShapeL] at h
  | _ :: _, [], _, _, h, _ => by simp [SameShapeL] at h

theorem SameShape.withPath (f g : FIS) (p : String) (h : SameShape f g) : SameShape (f.withPath p) (g.withPath p) := by
  obtain ⟨n1, s1, p1, subs1, l1⟩ := f
  obtain ⟨n2, s2, p2, subs2, l2⟩ := g
  simp only [SameShape, FIS.withPath, FIS.retSig, FIS.subs, FIS.loads] at h ⊢
  exact ⟨h.1, trivial, h.2.2.1, h.2.2.2⟩

/-- `SH fuel1`: two analysed calls with the same signature have interaction trees of the same shape -/
def SH (U : Universe) (m : Nat) (fuel1 : Nat) : Prop :=
  ∀ (fuel2 : Nat) (W1 W2 : World) (refs1 refs2 : Refs) (stack1 stack2 : List String) (fn1 fn2 : Fn)
    (ctx1 ctx2 : ArgCtx) (fis1 fis2 : FIS) (r1 r2 : Refs),
    U.world W1 → U.world W2 → U.fns fn1 → U.fns fn2 →
    analyse m W1 fuel1 refs1 stack1 fn1 ctx1 = .ok (fis1, r1) →
    analyse m W2 fuel2 refs2 stack2 fn2 ctx2 = .ok (fis2, r2) →
    fis1.retSig = fis2.retSig → SameShape fis1 fis2

theorem shape_callstep (U : Universe) {m : Nat} {fuel1 fuel2 : Nat} (hSH : SH U m fuel1) {W1 W2 : World}
    (hW1 : U.world W1) (hW2 : U.world W2)
    {fn1 fn2 : Fn} {isig1 isig2 : Sg} {stack1 stack2 : List String} {s1 s2 : VisitSt} {f : String}
    {args : List AstArg} {kwargs : List (String × AstArg)} {line : Nat}
    {g1 g2 : Fn} {c1 c2 : Option Sg} {n1 n2 : List (String × Option Sg)} {a b : FIS} {rf1 rf2 : Refs}
    (hc1 : CallStep m W1 (analyse m W1 fuel1) fn1 isig1 stack1 s1 f args kwargs line g1 c1 n1 a rf1)
    (hc2 : CallStep m W2 (analyse m W2 fuel2) fn2 isig2 stack2 s2 f args kwargs line g2 c2 n2 b rf2)
    (hs : a.retSig = b.retSig) : SameShape a b :=
  hSH fuel2 W1 W2 _ _ _ _ g1 g2 _ _ a b _ _ hW1 hW2 (U.find hW1 hc1.find) (U.find hW2 hc2.find) hc1.sub hc2.sub hs

theorem lockstep_shape (U : Universe) {m : Nat} {fuel1 fuel2 : Nat} (hSH : SH U m fuel1) {W1 W2 : World}
    (hW1 : U.world W1) (hW2 : U.world W2)
    (fn1 fn2 : Fn) (isig1 isig2 : Sg) (stack1 stack2 : List String) :
    ∀ (its : List Item), (∀ it ∈ its, ¬ it.isEval) → ∀ (s1 s1' s2 s2' : VisitSt),
      visitItems m W1 (analyse m W1 fuel1) fn1 isig1 stack1 s1 its = .ok s1' →
      visitItems m W2 (analyse m W2 fuel2) fn2 isig2 stack2 s2 its = .ok s2' →
      s1.inters.length = s2.inters.length → s1.seen = s2.seen →
      s1'.inters.map FIS.retSig = s2'.inters.map FIS.retSig →
      SameShapeL s1.inters s2.inters → SameShapeL s1'.inters s2'.inters
  | [], _, s1, s1', s2, s2', h1, h2, _, _, _, hsh => by
    simp only [visitItems, Except.ok.injEq] at h1 h2
    subst h1; subst h2; exact hsh
  | it :: its, hnl, s1, s1', s2, s2', h1, h2, hlen, hseen, hfin, hsh => by
    obtain ⟨t1, hv1, hr1⟩ := visitItems_cons_inv h1
    obtain ⟨t2, hv2, hr2⟩ := visitItems_cons_inv h2
    have hnl' : ∀ it ∈ its, ¬ it.isEval := fun x hx => hnl x (mem_cons_of_mem _ hx)
    have one : ∀ (a b : FIS), t1.inters = s1.inters ++ [a] → t2.inters = s2.inters ++ [b] → t1.seen = t2.seen →
        (a.retSig = b.retSig → SameShape a b) → SameShapeL s1'.inters s2'.inters := by
      intro a b i1 i2 hs' hab
      have hsig := next_sig_eq i1 i2 hr1 hr2 hlen hfin
      refine lockstep_shape U hSH hW1 hW2 fn1 fn2 isig1 isig2 stack1 stack2 its hnl' t1 s1' t2 s2' hr1 hr2
        (by rw [i1, i2]; simp [hlen]) hs' hfin ?_
      rw [i1, i2]
      exact SameShapeL.append _ _ _ _ hsh ⟨hab hsig, trivial⟩
    cases it with
    | call f line =>
      obtain ⟨g1, c1, n1, a, rf1, hc1, e1⟩ := plain_inv (by simpa [visitItem] using hv1)
      obtain ⟨g2, c2, n2, b, rf2, hc2, e2⟩ := plain_inv (by simpa [visitItem] using hv2)
      exact one a b (by rw [e1]) (by rw [e2]) (by rw [e1, e2]; exact hseen) (shape_callstep U hSH hW1 hW2 hc1 hc2)
    | callArgs f args kwargs rtA rtK line =>
      obtain ⟨g1, c1, n1, a, rf1, hc1, e1⟩ := plain_inv (by simpa [visitItem] using hv1)
      obtain ⟨g2, c2, n2, b, rf2, hc2, e2⟩ := plain_inv (by simpa [visitItem] using hv2)
      exact one a b (by rw [e1]) (by rw [e2]) (by rw [e1, e2]; exact hseen) (shape_callstep U hSH hW1 hW2 hc1 hc2)
    | keep path f args kwargs rtA rtK line =>
      obtain ⟨g1, c1, n1, a, rf1, hc1, _, e1⟩ := keep_inv hv1
      obtain ⟨g2, c2, n2, b, rf2, hc2, _, e2⟩ := keep_inv hv2
      exact one (a.withPath path) (b.withPath path) (by rw [e1]) (by rw [e2]) (by rw [e1, e2]; exact hseen)
        (fun hs => SameShape.withPath a b path (shape_callstep U hSH hW1 hW2 hc1 hc2 hs))
    | ref f line =>
      rcases ref_inv hv1 with ⟨hin1, e1⟩ | ⟨hnot1, g1, c1, n1, a, rf1, hc1, e1⟩
      · rcases ref_inv hv2 with ⟨_, e2⟩ | ⟨hnot2, _⟩
        · rw [e1] at hr1; rw [e2] at hr2
          exact lockstep_shape U hSH hW1 hW2 fn1 fn2 isig1 isig2 stack1 stack2 its hnl' s1 s1' s2 s2' hr1 hr2 hlen hseen hfin hsh
        · exact absurd (hseen ▸ hin1) hnot2
      · rcases ref_inv hv2 with ⟨hin2, _⟩ | ⟨_, g2, c2, n2, b, rf2, hc2, e2⟩
        · exact absurd (hseen ▸ hin2) hnot1
        · exact one a b (by rw [e1]) (by rw [e2]) (by rw [e1, e2]; simp [hseen]) (shape_callstep U hSH hW1 hW2 hc1 hc2)
    | load path line =>
      rw [load_inv hv1] at hr1
      rw [load_inv hv2] at hr2
      exact lockstep_shape U hSH hW1 hW2 fn1 fn2 isig1 isig2 stack1 stack2 its hnl' _ s1' _ s2' hr1 hr2 hlen hseen hfin hsh
    | evalCall f line => exact absurd (by simp [Item.isEval]) (hnl _ mem_cons_self)

/-- **the signature determines the shape of the interaction tree**: which calls below are kept, at which paths, with
which signatures, and which paths every body loads, resolved to which signatures -/
theorem sig_shape (U : Universe) (m : Nat) : ∀ fuel1, SH U m fuel1
  | 0 => by
    intro fuel2 W1 W2 refs1 refs2 stack1 stack2 fn1 fn2 ctx1 ctx2 fis1 fis2 r1 r2 _ _ _ _ h1
    exact absurd h1 analyse_zero
  | k1 + 1 => by
    intro fuel2 W1 W2 refs1 refs2 stack1 stack2 fn1 fn2 ctx1 ctx2 fis1 fis2 r1 r2 hW1 hW2 hU1 hU2 h1 h2 hs
    cases fuel2 with
    | zero => exact absurd h2 analyse_zero
    | succ k2 =>
      obtain ⟨ev1, io1, st1, b1, d1, ret1, a1⟩ := analyse_inv h1
      obtain ⟨ev2, io2, st2, b2, d2, ret2, a2⟩ := analyse_inv h2
      obtain ⟨hcode, _, hsubs⟩ := sig_code U a1 a2 hU1 hU2 hs
      have hdeps := sig_deps a1 a2 hs
      have hitems : fn1.items = fn2.items := congrArg Code.items hcode
      have hsp : fn1.storePath = fn2.storePath := congrArg Code.storePath hcode
      have hv2 := a2.hvisit
      rw [← hitems] at hv2
      have hsh := lockstep_shape U (sig_shape U m k1) hW1 hW2 fn1 fn2 _ _ stack1 stack2 fn1.items (U.noEval fn1 hU1)
        _ st1 _ st2 a1.hvisit hv2 rfl rfl hsubs trivial
      rw [a1.retSig, a2.retSig] at hs
      rw [a1.hfis, a2.hfis]
      simp only [SameShape]
      exact ⟨hs, hsp, hdeps, hsh⟩

/-! ## Plain states that hold the blobs of the loaded paths -/

abbrev Blobs := List (Sg × RVal)

mutual
/-- at every path loaded in the tree, the plain state holds the blob of the signature the path resolved to -/
def FIS.loadsOK (Ω : Blobs) (kept : LoadEnv) : FIS → Prop
  | .mk _ _ _ subs loads =>
    (∀ ps ∈ loads, ∃ v, sgGet Ω ps.2 = some v ∧ aget kept ps.1 = some v) ∧ FIS.loadsOKL Ω kept subs
def FIS.loadsOKL (Ω : Blobs) (kept : LoadEnv) : List FIS → Prop
  | [] => True
  | f :: fs => FIS.loadsOK Ω kept f ∧ FIS.loadsOKL Ω kept fs
end

mutual
/-- two states that hold the blobs (of one blob map) at the loaded paths of two trees of the same shape agree there -/
theorem loadsOK_agree {Ω : Blobs} {k1 k2 : LoadEnv} : ∀ (f g : FIS), SameShape f g →
    FIS.loadsOK Ω k1 f → FIS.loadsOK Ω k2 g → ∀ p ∈ f.allLoads, aget k1 p = aget k2 p
  | .mk _ s1 p1 subs1 l1, .mk _ s2 p2 subs2 l2, hs, h1, h2 => by
    simp only [SameShape] at hs
    simp only [FIS.loadsOK] at h1 h2
    intro p hp
    simp only [FIS.allLoads, mem_append, mem_map] at hp
    rcases hp with ⟨⟨p', s⟩, hm, rfl⟩ | hp
    · obtain ⟨v, hv1, hv2⟩ := h1.1 _ hm
      obtain ⟨w, hw1, hw2⟩ := h2.1 _ ((hs.2.2.1 p' s).mp hm)
      simp only at hv1 hv2 hw1 hw2
      rw [hv2, hw2, ← hv1, ← hw1]
    · exact loadsOKL_agree subs1 subs2 hs.2.2.2 h1.2 h2.2 p hp
theorem loadsOKL_agree {Ω : Blobs} {k1 k2 : LoadEnv} : ∀ (fs gs : List FIS), SameShapeL fs gs →
    FIS.loadsOKL Ω k1 fs → FIS.loadsOKL Ω k2 gs → ∀ p ∈ FIS.allLoadsL fs, aget k1 p = aget k2 p
  | [], [], _, _, _ => by intro p hp; simp [FIS.allLoadsL] at hp
  | f :: fs, g :: gs, hs, h1, h2 => by
    simp only [SameShapeL] at hs
    simp only [FIS.loadsOKL] at h1 h2
    intro p hp
    simp only [FIS.allLoadsL, mem_append] at hp
    rcases hp with hp | hp
    · exact loadsOK_agree f g hs.1 h1.1 h2.1 p hp
    · exact loadsOKL_agree fs gs hs.2 h1.2 h2.2 p hp
  | [], _ :: _, hs, _, _ => by simp [SameShapeL] at hs
  | _ :: _, [], hs, _, _ => by simp [SameShapeL] at hs
end

mutual
theorem loadsOK_mono {Ω Ω' : Blobs} {k : LoadEnv} (h : ∀ s v, sgGet Ω s = some v → sgGet Ω' s = some v) :
    ∀ (f : FIS), FIS.loadsOK Ω k f → FIS.loadsOK Ω' k f
  | .mk _ _ _ subs loads, hf => by
    simp only [FIS.loadsOK] at hf ⊢
    refine ⟨fun ps hps => ?_, loadsOKL_mono h subs hf.2⟩
    obtain ⟨v, hv1, hv2⟩ := hf.1 ps hps
    exact ⟨v, h _ _ hv1, hv2⟩
theorem loadsOKL_mono {Ω Ω' : Blobs} {k : LoadEnv} (h : ∀ s v, sgGet Ω s = some v → sgGet Ω' s = some v) :
    ∀ (fs : List FIS), FIS.loadsOKL Ω k fs → FIS.loadsOKL Ω' k fs
  | [], _ => trivial
  | f :: fs, hf => by
    simp only [FIS.loadsOKL] at hf ⊢
    exact ⟨loadsOK_mono h f hf.1, loadsOKL_mono h fs hf.2⟩
end

end Dds
