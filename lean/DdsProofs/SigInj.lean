import DdsProofs.Args
import Std.Data.String.ToNat
/-!
# Injectivity of signature composition (`_build_return_sig`)

Equal return signatures have, category by category, the same pairs: body, arguments (or context),
loaded paths, sub-calls, external names, tracked variables. The categories are told apart by the first
characters of their keys (`body_sig`, `arg_…`, `dep_…`, `fun_dep_…`, `ext_dep_…`, `ext_variable_…`).
-/
namespace Dds
open List

/-- category of a key of `_build_return_sig` -/
def keyCat (k : String) : Nat :=
  match k.toList with
  | 'b' :: _ => 0
  | 'a' :: _ => 1
  | 'd' :: _ => 2
  | 'f' :: _ => 3
  | 'e' :: _ :: _ :: _ :: 'd' :: _ => 4
  | 'e' :: _ :: _ :: _ :: 'v' :: _ => 5
  | _ => 6

theorem keyCat_body : keyCat "body_sig" = 0 := by decide +kernel
theorem keyCat_argctx : keyCat "arg_context" = 1 := by decide +kernel
theorem keyCat_arg (n : String) : keyCat ("arg_" ++ n) = 1 := by
  have : ("arg_" ++ n).toList = 'a' :: 'r' :: 'g' :: '_' :: n.toList := by rw [String.toList_append]; rfl
  simp [keyCat, this]
theorem keyCat_dep (n : String) : keyCat ("dep_" ++ n) = 2 := by
  have : ("dep_" ++ n).toList = 'd' :: 'e' :: 'p' :: '_' :: n.toList := by rw [String.toList_append]; rfl
  simp [keyCat, this]
theorem keyCat_fun (n : String) : keyCat ("fun_dep_" ++ n) = 3 := by
  have : ("fun_dep_" ++ n).toList = 'f' :: 'u' :: 'n' :: '_' :: 'd' :: 'e' :: 'p' :: '_' :: n.toList := by
    rw [String.toList_append]; rfl
  simp [keyCat, this]
theorem keyCat_extdep (n : String) : keyCat ("ext_dep_" ++ n) = 4 := by
  have : ("ext_dep_" ++ n).toList = 'e' :: 'x' :: 't' :: '_' :: 'd' :: 'e' :: 'p' :: '_' :: n.toList := by
    rw [String.toList_append]; rfl
  simp [keyCat, this]
theorem keyCat_extvar (n : String) : keyCat ("ext_variable_" ++ n) = 5 := by
  have : ("ext_variable_" ++ n).toList = 'e' :: 'x' :: 't' :: '_' :: 'v' :: 'a' :: 'r' :: 'i' :: 'a' :: 'b' :: 'l' :: 'e' :: '_' :: n.toList := by
    rw [String.toList_append]; rfl
  simp [keyCat, this]

abbrev Pairs := List (String × Sg)

def inCat (c : Nat) (l : Pairs) : Prop := ∀ kv ∈ l, keyCat kv.1 = c

theorem filter_cat_self {c : Nat} {l : Pairs} (h : inCat c l) : l.filter (fun kv => keyCat kv.1 == c) = l := by
  apply filter_eq_self.mpr
  intro kv hkv
  simp [h kv hkv]

theorem filter_cat_nil {c c' : Nat} {l : Pairs} (h : inCat c' l) (hne : c' ≠ c) :
    l.filter (fun kv => keyCat kv.1 == c) = [] := by
  apply filter_eq_nil_iff.mpr
  intro kv hkv
  simp [h kv hkv, hne]

/-- the six categories of one signature -/
structure SigParts where
  body : Pairs
  arg : Pairs
  dep : Pairs
  sub : Pairs
  extd : Pairs
  extv : Pairs

def SigParts.all (p : SigParts) : Pairs := p.body ++ p.arg ++ p.dep ++ p.sub ++ p.extd ++ p.extv

structure SigParts.WF (p : SigParts) : Prop where
  body : inCat 0 p.body
  arg : inCat 1 p.arg
  dep : inCat 2 p.dep
  sub : inCat 3 p.sub
  extd : inCat 4 p.extd
  extv : inCat 5 p.extv

theorem SigParts.filter_eq (p : SigParts) (h : p.WF) :
    p.all.filter (fun kv => keyCat kv.1 == 0) = p.body ∧
    p.all.filter (fun kv => keyCat kv.1 == 1) = p.arg ∧
    p.all.filter (fun kv => keyCat kv.1 == 2) = p.dep ∧
    p.all.filter (fun kv => keyCat kv.1 == 3) = p.sub ∧
    p.all.filter (fun kv => keyCat kv.1 == 4) = p.extd ∧
    p.all.filter (fun kv => keyCat kv.1 == 5) = p.extv := by
  simp only [SigParts.all, filter_append]
  refine ⟨?_, ?_, ?_, ?_, ?_, ?_⟩
  · rw [filter_cat_self h.body, filter_cat_nil h.arg (by decide), filter_cat_nil h.dep (by decide), filter_cat_nil h.sub (by decide),
      filter_cat_nil h.extd (by decide), filter_cat_nil h.extv (by decide)]; simp
  · rw [filter_cat_nil h.body (by decide), filter_cat_self h.arg, filter_cat_nil h.dep (by decide), filter_cat_nil h.sub (by decide),
      filter_cat_nil h.extd (by decide), filter_cat_nil h.extv (by decide)]; simp
  · rw [filter_cat_nil h.body (by decide), filter_cat_nil h.arg (by decide), filter_cat_self h.dep, filter_cat_nil h.sub (by decide),
      filter_cat_nil h.extd (by decide), filter_cat_nil h.extv (by decide)]; simp
  · rw [filter_cat_nil h.body (by decide), filter_cat_nil h.arg (by decide), filter_cat_nil h.dep (by decide), filter_cat_self h.sub,
      filter_cat_nil h.extd (by decide), filter_cat_nil h.extv (by decide)]; simp
  · rw [filter_cat_nil h.body (by decide), filter_cat_nil h.arg (by decide), filter_cat_nil h.dep (by decide), filter_cat_nil h.sub (by decide),
      filter_cat_self h.extd, filter_cat_nil h.extv (by decide)]; simp
  · rw [filter_cat_nil h.body (by decide), filter_cat_nil h.arg (by decide), filter_cat_nil h.dep (by decide), filter_cat_nil h.sub (by decide),
      filter_cat_nil h.extd (by decide), filter_cat_self h.extv]; simp

/-- equal `dds_hash_commut` of two well-formed part lists ⇒ the parts are permutations of each other, category by category -/
theorem SigParts.perm_of_hash_eq (p q : SigParts) (hp : p.WF) (hq : q.WF) (h : hashCommut p.all = hashCommut q.all) :
    p.body ~ q.body ∧ p.arg ~ q.arg ∧ p.dep ~ q.dep ∧ p.sub ~ q.sub ∧ p.extd ~ q.extd ∧ p.extv ~ q.extv := by
  have hperm := hashCommut_inj h
  obtain ⟨a0, a1, a2, a3, a4, a5⟩ := p.filter_eq hp
  obtain ⟨b0, b1, b2, b3, b4, b5⟩ := q.filter_eq hq
  refine ⟨?_, ?_, ?_, ?_, ?_, ?_⟩
  · rw [← a0, ← b0]; exact hperm.filter _
  · rw [← a1, ← b1]; exact hperm.filter _
  · rw [← a2, ← b2]; exact hperm.filter _
  · rw [← a3, ← b3]; exact hperm.filter _
  · rw [← a4, ← b4]; exact hperm.filter _
  · rw [← a5, ← b5]; exact hperm.filter _

end Dds

namespace Dds
open List

/-! ### the parts of `buildReturnSig` -/

def bodyPart (b : Option Sg) : Pairs := match b with | none => [] | some b => [("body_sig", b)]
def depPart (deps : List (String × Sg)) : Pairs := deps.map (fun (p, s) => ("dep_" ++ p, s))
def extdPart (ed : List (String × String)) : Pairs := ed.map (fun (l, cp) => ("ext_dep_" ++ l, hStr ("<" ++ cp ++ ">")))
def extvPart (ev : List (String × Sg)) : Pairs := ev.map (fun (l, s) => ("ext_variable_" ++ l, s))

theorem buildReturnSig_eq (b : Option Sg) (a : ArgCtx) (deps : List (String × Sg)) (subs : List Sg)
    (ed : List (String × String)) (ev : List (String × Sg)) (pa : Pairs) (ha : argPairs a = .ok pa) :
    buildReturnSig b a deps subs ed ev =
      .ok (hashCommut (SigParts.all ⟨bodyPart b, pa, depPart deps, fisSigList subs, extdPart ed, extvPart ev⟩)) := by
  unfold buildReturnSig
  rw [ha]
  simp only [ok_bind, pure, Except.pure, SigParts.all, bodyPart, depPart, extdPart, extvPart]
  cases b <;> rfl

theorem argPairs_cat (a : ArgCtx) (pa : Pairs) (h : argPairs a = .ok pa) : inCat 1 pa := by
  unfold argPairs at h
  cases hs : allSome a.named with
  | some kvs =>
    simp only [hs, Except.ok.injEq] at h
    subst h
    intro kv hkv
    obtain ⟨x, _, hx⟩ := mem_map.mp hkv
    subst hx
    exact keyCat_arg _
  | none =>
    simp only [hs] at h
    cases hi : a.inner with
    | none => simp [hi] at h
    | some k =>
      simp only [hi, Except.ok.injEq] at h
      subst h
      intro kv hkv
      simp only [mem_singleton] at hkv
      subst hkv
      exact keyCat_argctx

theorem fisSigListFrom_cat : ∀ (subs : List Sg) (i : Nat), inCat 3 (fisSigListFrom i subs)
  | [], _ => by intro kv h; cases h
  | s :: ss, i => by
    intro kv hkv
    simp only [fisSigListFrom, mem_cons] at hkv
    rcases hkv with h | h
    · subst h; exact keyCat_fun _
    · exact fisSigListFrom_cat ss (i + 1) kv h

theorem parts_wf (b : Option Sg) (a : ArgCtx) (deps : List (String × Sg)) (subs : List Sg)
    (ed : List (String × String)) (ev : List (String × Sg)) (pa : Pairs) (ha : argPairs a = .ok pa) :
    SigParts.WF ⟨bodyPart b, pa, depPart deps, fisSigList subs, extdPart ed, extvPart ev⟩ where
  body := by
    intro kv hkv
    cases b with
    | none => cases hkv
    | some b => simp only [bodyPart, mem_singleton] at hkv; subst hkv; exact keyCat_body
  arg := argPairs_cat a pa ha
  dep := by
    intro kv hkv
    obtain ⟨x, _, hx⟩ := mem_map.mp hkv
    subst hx; exact keyCat_dep _
  sub := fisSigListFrom_cat subs 0
  extd := by
    intro kv hkv
    obtain ⟨x, _, hx⟩ := mem_map.mp hkv
    subst hx; exact keyCat_extdep _
  extv := by
    intro kv hkv
    obtain ⟨x, _, hx⟩ := mem_map.mp hkv
    subst hx; exact keyCat_extvar _

theorem fisSigListFrom_keys : ∀ (subs : List Sg) (i : Nat),
    (fisSigListFrom i subs).map Prod.fst = (List.range' i subs.length).map (fun j => "fun_dep_" ++ toString j)
  | [], _ => rfl
  | s :: ss, i => by
    simp only [fisSigListFrom, map_cons, length_cons, range'_succ, fisSigListFrom_keys ss (i + 1)]

theorem fisSigListFrom_snd : ∀ (subs : List Sg) (i : Nat), (fisSigListFrom i subs).map Prod.snd = subs
  | [], _ => rfl
  | s :: ss, i => by simp only [fisSigListFrom, map_cons, fisSigListFrom_snd ss (i + 1)]

theorem fun_dep_key_inj (a b : Nat) (h : "fun_dep_" ++ toString a = "fun_dep_" ++ toString b) : a = b :=
  Nat.repr_inj.mp ((String.append_right_inj _).mp h)

theorem fisSigList_perm_eq (s s' : List Sg) (h : fisSigList s ~ fisSigList s') : s = s' := by
  unfold fisSigList at h
  have hlen : s.length = s'.length := by
    have := h.length_eq
    rw [← length_map (f := Prod.snd), ← length_map (f := Prod.snd) (as := fisSigListFrom 0 s'),
      fisSigListFrom_snd, fisSigListFrom_snd] at this
    exact this
  have hkeys : (fisSigListFrom 0 s).map Prod.fst = (fisSigListFrom 0 s').map Prod.fst := by
    rw [fisSigListFrom_keys, fisSigListFrom_keys, hlen]
  have hnd : KeysNodup (fisSigListFrom 0 s) := by
    unfold KeysNodup
    rw [fisSigListFrom_keys]
    exact Pairwise.map _ (fun a b hab e => hab (fun_dep_key_inj a b e)) (nodup_range' (step := 1) (by decide))
  have := perm_same_keys_eq _ _ hkeys hnd h
  rw [← fisSigListFrom_snd s 0, ← fisSigListFrom_snd s' 0, this]

theorem bodyPart_perm_eq (b b' : Option Sg) (h : bodyPart b ~ bodyPart b') : b = b' := by
  cases b <;> cases b' <;> simp only [bodyPart] at h
  · rfl
  · exact absurd h.length_eq (by simp)
  · exact absurd h.length_eq (by simp)
  · have := perm_singleton.mp h
    simp only [cons.injEq, Prod.mk.injEq, true_and, and_true] at this
    rw [this]

theorem depPart_mem_iff (deps deps' : List (String × Sg)) (h : depPart deps ~ depPart deps') (p : String) (s : Sg) :
    (p, s) ∈ deps ↔ (p, s) ∈ deps' := by
  have key : ∀ (d d' : List (String × Sg)), depPart d ~ depPart d' → (p, s) ∈ d → (p, s) ∈ d' := by
    intro d d' hp hm
    have : ("dep_" ++ p, s) ∈ depPart d := mem_map.mpr ⟨(p, s), hm, rfl⟩
    obtain ⟨x, hx, he⟩ := mem_map.mp (hp.subset this)
    simp only [Prod.mk.injEq] at he
    obtain ⟨x1, x2⟩ := x
    simp only at he
    rw [(String.append_right_inj _).mp he.1, he.2] at hx
    exact hx
  exact ⟨key _ _ h, key _ _ h.symm⟩

theorem extvPart_mem_iff (ev ev' : List (String × Sg)) (h : extvPart ev ~ extvPart ev') (l : String) (s : Sg) :
    (l, s) ∈ ev ↔ (l, s) ∈ ev' := by
  have key : ∀ (d d' : List (String × Sg)), extvPart d ~ extvPart d' → (l, s) ∈ d → (l, s) ∈ d' := by
    intro d d' hp hm
    have : ("ext_variable_" ++ l, s) ∈ extvPart d := mem_map.mpr ⟨(l, s), hm, rfl⟩
    obtain ⟨x, hx, he⟩ := mem_map.mp (hp.subset this)
    simp only [Prod.mk.injEq] at he
    obtain ⟨x1, x2⟩ := x
    simp only at he
    rw [(String.append_right_inj _).mp he.1, he.2] at hx
    exact hx
  exact ⟨key _ _ h, key _ _ h.symm⟩

theorem hStr_inj {a b : String} (h : hStr a = hStr b) : a = b := by
  simp only [hStr, Sg.H.injEq] at h
  exact utf8_inj (litPart_inj h)

theorem extdPart_mem_iff (ed ed' : List (String × String)) (h : extdPart ed ~ extdPart ed') (l c : String) :
    (l, c) ∈ ed ↔ (l, c) ∈ ed' := by
  have key : ∀ (d d' : List (String × String)), extdPart d ~ extdPart d' → (l, c) ∈ d → (l, c) ∈ d' := by
    intro d d' hp hm
    have : ("ext_dep_" ++ l, hStr ("<" ++ c ++ ">")) ∈ extdPart d := mem_map.mpr ⟨(l, c), hm, rfl⟩
    obtain ⟨x, hx, he⟩ := mem_map.mp (hp.subset this)
    simp only [Prod.mk.injEq] at he
    obtain ⟨x1, x2⟩ := x
    simp only at he
    have h2 := hStr_inj he.2
    have h3 : x2 = c := (String.append_right_inj _).mp ((String.append_left_inj _).mp h2)
    rw [(String.append_right_inj _).mp he.1, h3] at hx
    exact hx
  exact ⟨key _ _ h, key _ _ h.symm⟩

/-- **Injectivity of signature composition.** Two calls of `_build_return_sig` with the same result have the
same body signature, the same argument pairs (up to order), the same loaded-path signatures, the same
sub-call signatures in the same order, the same external names and the same tracked-variable hashes. -/
theorem buildReturnSig_inj (b b' : Option Sg) (a a' : ArgCtx) (deps deps' : List (String × Sg)) (subs subs' : List Sg)
    (ed ed' : List (String × String)) (ev ev' : List (String × Sg)) (pa pa' : Pairs)
    (ha : argPairs a = .ok pa) (ha' : argPairs a' = .ok pa')
    (h : buildReturnSig b a deps subs ed ev = buildReturnSig b' a' deps' subs' ed' ev') :
    b = b' ∧ pa ~ pa' ∧ (∀ p s, (p, s) ∈ deps ↔ (p, s) ∈ deps') ∧ subs = subs' ∧
    (∀ l c, (l, c) ∈ ed ↔ (l, c) ∈ ed') ∧ (∀ l s, (l, s) ∈ ev ↔ (l, s) ∈ ev') := by
  rw [buildReturnSig_eq b a deps subs ed ev pa ha, buildReturnSig_eq b' a' deps' subs' ed' ev' pa' ha'] at h
  simp only [Except.ok.injEq] at h
  obtain ⟨h0, h1, h2, h3, h4, h5⟩ := SigParts.perm_of_hash_eq _ _
    (parts_wf b a deps subs ed ev pa ha) (parts_wf b' a' deps' subs' ed' ev' pa' ha') h
  exact ⟨bodyPart_perm_eq b b' h0, h1, depPart_mem_iff deps deps' h2, fisSigList_perm_eq subs subs' h3,
    extdPart_mem_iff ed ed' h4, extvPart_mem_iff ev ev' h5⟩

end Dds
