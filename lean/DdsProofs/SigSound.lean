import DdsProofs.AnalyseInv
import DdsProofs.SigInj
import DdsProofs.Lru
/-!
# A signature determines the plain value (`sig_sound`, code part)

`SS`: if two calls — possibly in two different versions of the code (two worlds) — get the same return
signature from the analysis and are run with the same parameter values, plain execution of the two
returns the same value. This is the heart of C01 (a stored blob may be served) and of C02 (equal cone ⇒
equal signature is the converse direction).

Hypotheses (the *universe* of function versions the theorem talks about):
* `faithful`  — the source text of a function determines its code (name, parameters, items, tag, …): two
  versions with the same lines are the same program. This is a property of Python (the text *is* the
  program) and of the generator's renderer; the harness checks it on every generated version.
* `varsInj`, `argsInj` — `dds_hash` is injective on the values of tracked variables that occur, and on the argument
  values that occur (two separate sets: a variable is never compared with an argument) (C05 proves exactly which
  values collide: `collide_iff`; the generator's pools are collision-free).
* loads — a body may `dds.load`: the two executions must then start from plain states that agree on the paths the
  call (transitively) loads; the agreement is preserved (`KeptPres`), so a path produced and then loaded is fine too.
-/
namespace Dds
open List

/-- what the source text of a function determines -/
structure Code where
  name : String
  params : List Param
  storePath : Option String
  tag : String
  items : List Item
  fails : Option String
  usesExt : Bool
  ws : Option Bool
  varNames : List String

def Fn.code (f : Fn) : Code :=
  ⟨f.name, f.params, f.storePath, f.tag, f.items, f.fails, f.usesExt, f.ws, f.vars.map Prod.fst⟩

def Item.isEval : Item → Prop
  | .evalCall _ _ => True
  | _ => False

/-- the literal arguments written at a call -/
def Item.hasConst (it : Item) (v : PyVal) : Prop :=
  match it with
  | .callArgs _ args kwargs _ _ _ | .keep _ _ args kwargs _ _ _ =>
    AstArg.const v ∈ args ∨ ∃ n, (n, AstArg.const v) ∈ kwargs
  | _ => False

/-- the line where the call of an item ends -/
def Item.line : Item → Nat
  | .call _ l | .ref _ l | .load _ l | .evalCall _ l => l
  | .callArgs _ _ _ _ _ l | .keep _ _ _ _ _ _ l => l

structure Universe where
  fns : Fn → Prop
  /-- the values of tracked variables that occur -/
  vals : PyVal → Prop
  /-- the argument values that occur: literals at calls, defaults, arguments of entry calls -/
  avals : PyVal → Prop
  faithful : ∀ f g, fns f → fns g → f.lines = g.lines → f.code = g.code
  varsInj : ∀ v w, vals v → vals w → canonKF v = canonKF w → v = w
  argsInj : ∀ v w, avals v → avals w → canonKF v = canonKF w → v = w
  varsIn : ∀ f, fns f → ∀ nv ∈ f.vars, vals nv.2
  varNames : ∀ f, fns f → (f.vars.map Prod.fst).Nodup
  /-- no nested `dds.eval` (such programs are rejected by the analysis anyway: C11) -/
  noEval : ∀ f, fns f → ∀ it ∈ f.items, ¬ it.isEval
  /-- literal arguments and defaults are values on which `dds_hash` is injective; parameters are plain -/
  constsIn : ∀ f, fns f → ∀ it ∈ f.items, ∀ v, it.hasConst v → avals v
  defaultsIn : ∀ f, fns f → ∀ p ∈ f.params, ∀ d, p.default = some d → avals d
  plainParams : ∀ f, fns f → plainParams f.params = true
  /-- parameter names are distinct, and none is called `context` (the key `arg_context` is reserved) -/
  paramNames : ∀ f, fns f → (f.params.map Param.name).Nodup
  noCtxParam : ∀ f, fns f → ∀ p ∈ f.params, p.name ≠ "context"
  /-- items are listed in source order, one call per line, inside the text -/
  sorted : ∀ f, fns f → f.items.Pairwise (fun a b => a.line < b.line)
  lineBound : ∀ f, fns f → ∀ it ∈ f.items, it.line < f.lines.length
  /-- the text up to a line determines the parameters and the calls up to that line -/
  prefixFaithful : ∀ f g n, fns f → fns g → f.lines.take (n + 1) = g.lines.take (n + 1) →
    f.params = g.params ∧ f.items.filter (fun it => it.line ≤ n) = g.items.filter (fun it => it.line ≤ n)

def Universe.world (U : Universe) (W : World) : Prop := ∀ f ∈ W.funs, U.fns f

theorem Universe.find {U : Universe} {W : World} (hW : U.world W) {n : String} {g : Fn} (h : W.find n = some g) :
    U.fns g := hW g (List.mem_of_find?_eq_some h)

/-! ## Hash injectivity on source lines and on variable values -/

theorem canonKFL_strs_inj : ∀ (a b : List String), canonKFL (a.map PyVal.str) = canonKFL (b.map PyVal.str) → a = b
  | [], [], _ => rfl
  | [], _ :: _, h => by simp [canonKFL] at h
  | _ :: _, [], h => by simp [canonKFL] at h
  | x :: xs, y :: ys, h => by
    simp only [map_cons, canonKFL, canonKF, cons.injEq, CVal.atom.injEq] at h
    rw [utf8_inj h.1, canonKFL_strs_inj xs ys h.2]

theorem mkSeq_inj {a b : List CVal} (h : mkSeq a = mkSeq b) : a = b := by
  unfold mkSeq at h
  cases a with
  | nil => cases b with
    | nil => rfl
    | cons y ys => simp at h
  | cons x xs => cases b with
    | nil => simp at h
    | cons y ys => simpa using h

theorem hashLines_inj {m : Nat} {a b : List String} {s : Sg}
    (ha : hashLines m a = .ok s) (hb : hashLines m b = .ok s) : a = b := by
  have h1 := ddsHash_eq_hashC m _ _ (liftH_ok ha)
  have h2 := ddsHash_eq_hashC m _ _ (liftH_ok hb)
  have := hashC_inj _ _ (canonKF_wf _) (canonKF_wf _) (h1.symm.trans h2)
  simp only [canonKF] at this
  exact canonKFL_strs_inj a b (mkSeq_inj this)

theorem hashVars_names {m : Nat} : ∀ {vs : List (String × PyVal)} {ev : List (String × Sg)},
    hashVars m vs = .ok ev → ev.map Prod.fst = vs.map Prod.fst
  | [], ev, h => by simp [hashVars] at h; subst h; rfl
  | (n, v) :: vs, ev, h => by
    unfold hashVars at h
    obtain ⟨hh, _, h⟩ := bind_ok h
    obtain ⟨r, hr, h⟩ := bind_ok h
    simp only [pure, Except.pure, Except.ok.injEq] at h
    subst h
    simp [hashVars_names hr]

/-- two variable lists with the same names (distinct) whose hashed forms have the same members are equal -/
theorem vars_eq (U : Universe) {m : Nat} : ∀ {vs ws : List (String × PyVal)} {ev ew : List (String × Sg)},
    hashVars m vs = .ok ev → hashVars m ws = .ok ew → vs.map Prod.fst = ws.map Prod.fst →
    (vs.map Prod.fst).Nodup → (∀ nv ∈ vs, U.vals nv.2) → (∀ nv ∈ ws, U.vals nv.2) →
    (∀ l s, (l, s) ∈ ev ↔ (l, s) ∈ ew) → vs = ws
  | [], [], _, _, _, _, _, _, _, _, _ => rfl
  | [], _ :: _, _, _, _, _, hn, _, _, _, _ => by simp at hn
  | _ :: _, [], _, _, _, _, hn, _, _, _, _ => by simp at hn
  | (n, v) :: vs, (n', w) :: ws, ev, ew, h1, h2, hn, hnd, hv, hw, hmem => by
    simp only [map_cons, cons.injEq] at hn
    obtain ⟨hn1, hn2⟩ := hn
    subst hn1
    unfold hashVars at h1 h2
    obtain ⟨hv1, e1, h1⟩ := bind_ok h1
    obtain ⟨r1, hr1, h1⟩ := bind_ok h1
    obtain ⟨hw1, e2, h2⟩ := bind_ok h2
    obtain ⟨r2, hr2, h2⟩ := bind_ok h2
    simp only [pure, Except.pure, Except.ok.injEq] at h1 h2
    subst h1; subst h2
    simp only [map_cons, nodup_cons] at hnd
    have hnames1 := hashVars_names hr1
    have hnames2 := hashVars_names hr2
    have hnot1 : ∀ s, (n, s) ∉ r1 := fun s hs => hnd.1 (hnames1 ▸ mem_map.mpr ⟨_, hs, rfl⟩)
    have hnot2 : ∀ s, (n, s) ∉ r2 := fun s hs => hnd.1 (hn2 ▸ hnames2 ▸ mem_map.mpr ⟨_, hs, rfl⟩)
    have hh : hv1 = hw1 := by
      have := (hmem n hv1).mp mem_cons_self
      rcases mem_cons.mp this with h | h
      · exact (Prod.mk.injEq _ _ _ _ ▸ h).2
      · exact absurd h (hnot2 _)
    subst hh
    have hvw : v = w := by
      have a := ddsHash_eq_hashC m _ _ (liftH_ok e1)
      have b := ddsHash_eq_hashC m _ _ (liftH_ok e2)
      exact U.varsInj v w (hv _ mem_cons_self) (hw _ mem_cons_self)
        (hashC_inj _ _ (canonKF_wf _) (canonKF_wf _) (a.symm.trans b))
    subst hvw
    have htail : ∀ l s, (l, s) ∈ r1 ↔ (l, s) ∈ r2 := by
      intro l s
      constructor
      · intro h
        rcases mem_cons.mp ((hmem l s).mp (mem_cons_of_mem _ h)) with h' | h'
        · simp only [Prod.mk.injEq] at h'; exact absurd (h'.1 ▸ h) (hnot1 _)
        · exact h'
      · intro h
        rcases mem_cons.mp ((hmem l s).mpr (mem_cons_of_mem _ h)) with h' | h'
        · simp only [Prod.mk.injEq] at h'; exact absurd (h'.1 ▸ h) (hnot2 _)
        · exact h'
    rw [vars_eq U hr1 hr2 hn2 hnd.2 (fun nv h => hv nv (mem_cons_of_mem _ h))
      (fun nv h => hw nv (mem_cons_of_mem _ h)) htail]

theorem buildReturnSig_argPairs {b : Option Sg} {a : ArgCtx} {deps : List (String × Sg)} {subs : List Sg}
    {ed : List (String × String)} {ev : List (String × Sg)} {r : Option Sg}
    (h : buildReturnSig b a deps subs ed ev = .ok r) : ∃ pa, argPairs a = .ok pa := by
  unfold buildReturnSig at h
  obtain ⟨pa, hpa, _⟩ := bind_ok h
  exact ⟨pa, hpa⟩

/-- **The signature determines the code**: two analysed calls with the same return signature are calls of the same
program text with the same tracked-variable values, and their sub-calls have the same signatures in order. -/
theorem sig_code (U : Universe) {m : Nat} {W1 W2 : World} {fuel1 fuel2 : Nat} {refs1 refs2 : Refs}
    {stack1 stack2 : List String} {fn1 fn2 : Fn} {ctx1 ctx2 : ArgCtx} {fis1 fis2 : FIS} {r1 r2 : Refs}
    {ev1 ev2 : List (String × Sg)} {io1 io2 : Option Sg} {st1 st2 : VisitSt} {b1 b2 : Sg}
    {d1 d2 : List (String × Sg)} {ret1 ret2 : Sg}
    (h1 : AnalyseOk m W1 fuel1 refs1 stack1 fn1 ctx1 fis1 r1 ev1 io1 st1 b1 d1 ret1)
    (h2 : AnalyseOk m W2 fuel2 refs2 stack2 fn2 ctx2 fis2 r2 ev2 io2 st2 b2 d2 ret2)
    (hU1 : U.fns fn1) (hU2 : U.fns fn2) (hs : fis1.retSig = fis2.retSig) :
    fn1.code = fn2.code ∧ fn1.vars = fn2.vars ∧ st1.inters.map FIS.retSig = st2.inters.map FIS.retSig := by
  rw [h1.retSig, h2.retSig] at hs
  subst hs
  obtain ⟨pa1, hpa1⟩ := buildReturnSig_argPairs h1.hret
  obtain ⟨pa2, hpa2⟩ := buildReturnSig_argPairs h2.hret
  obtain ⟨hb, _, _, hsubs, _, hev⟩ := buildReturnSig_inj _ _ _ _ _ _ _ _ _ _ _ _ pa1 pa2 hpa1 hpa2
    (h1.hret.trans h2.hret.symm)
  simp only [Option.some.injEq] at hb
  subst hb
  have hlines := hashLines_inj h1.hbody h2.hbody
  have hcode := U.faithful fn1 fn2 hU1 hU2 hlines
  have hnames : fn1.vars.map Prod.fst = fn2.vars.map Prod.fst := by
    have := congrArg Code.varNames hcode
    exact this
  exact ⟨hcode, vars_eq U h1.hvars h2.hvars hnames (U.varNames fn1 hU1) (U.varsIn fn1 hU1) (U.varsIn fn2 hU2) hev, hsubs⟩

/-- … and the paths the two bodies load resolve to the same signatures -/
theorem sig_deps {m : Nat} {W1 W2 : World} {fuel1 fuel2 : Nat} {refs1 refs2 : Refs}
    {stack1 stack2 : List String} {fn1 fn2 : Fn} {ctx1 ctx2 : ArgCtx} {fis1 fis2 : FIS} {r1 r2 : Refs}
    {ev1 ev2 : List (String × Sg)} {io1 io2 : Option Sg} {st1 st2 : VisitSt} {b1 b2 : Sg}
    {d1 d2 : List (String × Sg)} {ret1 ret2 : Sg}
    (h1 : AnalyseOk m W1 fuel1 refs1 stack1 fn1 ctx1 fis1 r1 ev1 io1 st1 b1 d1 ret1)
    (h2 : AnalyseOk m W2 fuel2 refs2 stack2 fn2 ctx2 fis2 r2 ev2 io2 st2 b2 d2 ret2)
    (hs : fis1.retSig = fis2.retSig) : ∀ p s, (p, s) ∈ d1 ↔ (p, s) ∈ d2 := by
  rw [h1.retSig, h2.retSig] at hs
  subst hs
  obtain ⟨pa1, hpa1⟩ := buildReturnSig_argPairs h1.hret
  obtain ⟨pa2, hpa2⟩ := buildReturnSig_argPairs h2.hret
  exact (buildReturnSig_inj _ _ _ _ _ _ _ _ _ _ _ _ pa1 pa2 hpa1 hpa2 (h1.hret.trans h2.hret.symm)).2.2.1

/-! ## Plain execution, one item at a time -/

/-- the result of one item under plain execution (the `let r` of `plainItems`) -/
def plainItemRes (W : World) (rec : PlainRec) (env : Env) (st : PSt) (results : List RVal) : Item → PRes
  | .call f _ | .ref f _ =>
    match W.find f with
    | none => (.error (.dds .objectNotFound), st)
    | some g => match bindRun g.params [] [] 0 with
      | none => (.error (.exc "TypeError" f), st)
      | some env' =>
        match rec st g env' with
        | (.ok v, st') => (.ok v, match g.storePath with
            | some p => { st' with kept := aset st'.kept p v }
            | none => st')
        | r => r
  | .callArgs f args kwargs rtA rtK _ =>
    match W.find f with
    | none => (.error (.dds .objectNotFound), st)
    | some g => match bindRun g.params (zipArgs results env args rtA) (zipKw results env kwargs rtK) 0 with
      | none => (.error (.exc "TypeError" f), st)
      | some env' =>
        match rec st g env' with
        | (.ok v, st') => (.ok v, match g.storePath with
            | some p => { st' with kept := aset st'.kept p v }
            | none => st')
        | r => r
  | .keep path f args kwargs rtA rtK _ =>
    match W.find f with
    | none => (.error (.dds .objectNotFound), st)
    | some g => match bindRun g.params (zipArgs results env args rtA) (zipKw results env kwargs rtK) 0 with
      | none => (.error (.exc "TypeError" f), st)
      | some env' =>
        match rec st g env' with
        | (.ok v, st') => (.ok v, { st' with kept := aset st'.kept path v })
        | r => r
  | .load path _ =>
    match aget st.kept path with
    | some v => (.ok v, st)
    | none => (.error (.exc "KeyError" path), st)
  | .evalCall f _ =>
    match W.find f with
    | none => (.error (.dds .objectNotFound), st)
    | some g => match bindRun g.params [] [] 0 with
      | none => (.error (.exc "TypeError" f), st)
      | some env' => rec st g env'

theorem plainItems_cons (W : World) (rec : PlainRec) (env : Env) (st : PSt) (results : List RVal) (it : Item)
    (its : List Item) :
    plainItems W rec env st results (it :: its) =
      match plainItemRes W rec env st results it with
      | (.ok v, st') => plainItems W rec env st' (results ++ [v]) its
      | (.error e, st') => (.error e, st') := by
  cases it <;> rfl

/-- the value part of a call-like item: `find`, bind, run -/
def callVal (W : World) (rec : PlainRec) (st : PSt) (f : String) (pos : List RVal) (kw : List (String × RVal)) :
    Except XErr RVal :=
  match W.find f with
  | none => .error (.dds .objectNotFound)
  | some g => match bindRun g.params pos kw 0 with
    | none => .error (.exc "TypeError" f)
    | some env' => (rec st g env').1

theorem fst_keep_update (r : PRes) (upd : RVal → PSt → PSt) :
    (match r with
      | (.ok v, st') => ((.ok v : Except XErr RVal), upd v st')
      | r => r).1 = r.1 := by
  obtain ⟨v, st'⟩ := r
  cases v <;> rfl

theorem plainItemRes_call (W : World) (rec : PlainRec) (env : Env) (st : PSt) (results : List RVal) (f : String) (l : Nat) :
    (plainItemRes W rec env st results (.call f l)).1 = callVal W rec st f [] [] := by
  simp only [plainItemRes, callVal]
  cases W.find f with
  | none => rfl
  | some g =>
    simp only []
    cases bindRun g.params [] [] 0 with
    | none => rfl
    | some env' => exact fst_keep_update _ _

theorem plainItemRes_ref (W : World) (rec : PlainRec) (env : Env) (st : PSt) (results : List RVal) (f : String) (l : Nat) :
    (plainItemRes W rec env st results (.ref f l)).1 = callVal W rec st f [] [] := by
  simp only [plainItemRes, callVal]
  cases W.find f with
  | none => rfl
  | some g =>
    simp only []
    cases bindRun g.params [] [] 0 with
    | none => rfl
    | some env' => exact fst_keep_update _ _

theorem plainItemRes_callArgs (W : World) (rec : PlainRec) (env : Env) (st : PSt) (results : List RVal) (f : String)
    (args kwargs rtA rtK) (l : Nat) :
    (plainItemRes W rec env st results (.callArgs f args kwargs rtA rtK l)).1 =
      callVal W rec st f (zipArgs results env args rtA) (zipKw results env kwargs rtK) := by
  simp only [plainItemRes, callVal]
  cases W.find f with
  | none => rfl
  | some g =>
    simp only []
    cases bindRun g.params (zipArgs results env args rtA) (zipKw results env kwargs rtK) 0 with
    | none => rfl
    | some env' => exact fst_keep_update _ _

theorem plainItemRes_keep (W : World) (rec : PlainRec) (env : Env) (st : PSt) (results : List RVal) (path f : String)
    (args kwargs rtA rtK) (l : Nat) :
    (plainItemRes W rec env st results (.keep path f args kwargs rtA rtK l)).1 =
      callVal W rec st f (zipArgs results env args rtA) (zipKw results env kwargs rtK) := by
  simp only [plainItemRes, callVal]
  cases W.find f with
  | none => rfl
  | some g =>
    simp only []
    cases bindRun g.params (zipArgs results env args rtA) (zipKw results env kwargs rtK) 0 with
    | none => rfl
    | some env' => exact fst_keep_update _ _

/-! ## Inversion of the visitor, item by item -/

theorem visitItems_cons_inv {m : Nat} {W : World} {rec : Analyse} {fn : Fn} {isig : Sg} {stack : List String}
    {st st' : VisitSt} {it : Item} {its : List Item}
    (h : visitItems m W rec fn isig stack st (it :: its) = .ok st') :
    ∃ t, visitItem m W rec fn isig stack st it = .ok t ∧ visitItems m W rec fn isig stack t its = .ok st' := by
  unfold visitItems at h
  exact bind_ok h

theorem ref_inv {m : Nat} {W : World} {rec : Analyse} {fn : Fn} {isig : Sg} {stack : List String}
    {st st' : VisitSt} {f : String} {line : Nat}
    (h : visitItem m W rec fn isig stack st (.ref f line) = .ok st') :
    (f ∈ st.seen ∧ st' = st) ∨
    (f ∉ st.seen ∧ ∃ g ctx named fis refs, CallStep m W rec fn isig stack st f [] [] line g ctx named fis refs ∧
      st' = { st with inters := st.inters ++ [fis], refs := refs, seen := f :: st.seen }) := by
  unfold visitItem at h
  by_cases hs : f ∈ st.seen
  · simp only [hs, if_true, Except.ok.injEq] at h
    exact Or.inl ⟨hs, h.symm⟩
  · simp only [hs, if_false] at h
    obtain ⟨t, ht, h⟩ := bind_ok h
    obtain ⟨g, ctx, named, fis, refs, hc, rfl⟩ := plain_inv ht
    simp only [pure, Except.pure, Except.ok.injEq] at h
    exact Or.inr ⟨hs, g, ctx, named, fis, refs, hc, h.symm⟩

theorem visitItem_grows {m : Nat} {W : World} {rec : Analyse} {fn : Fn} {isig : Sg} {stack : List String}
    {st st' : VisitSt} {it : Item} (h : visitItem m W rec fn isig stack st it = .ok st') :
    ∃ d, st'.inters = st.inters ++ d := by
  cases it with
  | call f line =>
    obtain ⟨g, ctx, named, fis, refs, _, rfl⟩ := plain_inv (by simpa [visitItem] using h)
    exact ⟨[fis], rfl⟩
  | callArgs f args kwargs rtA rtK line =>
    obtain ⟨g, ctx, named, fis, refs, _, rfl⟩ := plain_inv (by simpa [visitItem] using h)
    exact ⟨[fis], rfl⟩
  | ref f line =>
    rcases ref_inv h with ⟨_, rfl⟩ | ⟨_, g, ctx, named, fis, refs, _, rfl⟩
    · exact ⟨[], by simp⟩
    · exact ⟨[fis], rfl⟩
  | keep path f args kwargs rtA rtK line =>
    obtain ⟨g, ctx, named, fis, refs, _, _, rfl⟩ := keep_inv h
    exact ⟨[fis.withPath path], rfl⟩
  | load path line =>
    unfold visitItem at h
    by_cases hp : pathAbsolute path = true
    · simp only [hp, Bool.not_true, Bool.false_eq_true, if_false, Except.ok.injEq] at h
      subst h; exact ⟨[], by simp⟩
    · simp [hp] at h
  | evalCall f line => simp [visitItem] at h

theorem visitItems_grows {m : Nat} {W : World} {rec : Analyse} {fn : Fn} {isig : Sg} {stack : List String} :
    ∀ {its : List Item} {st st' : VisitSt}, visitItems m W rec fn isig stack st its = .ok st' →
    ∃ d, st'.inters = st.inters ++ d
  | [], st, st', h => by simp [visitItems] at h; subst h; exact ⟨[], by simp⟩
  | it :: its, st, st', h => by
    obtain ⟨t, h1, h2⟩ := visitItems_cons_inv h
    obtain ⟨d1, e1⟩ := visitItem_grows h1
    obtain ⟨d2, e2⟩ := visitItems_grows h2
    exact ⟨d1 ++ d2, by rw [e2, e1, append_assoc]⟩

/-- if the final signature lists agree and the prefixes have equal length, the signatures appended next agree -/
theorem next_sig_eq {m : Nat} {W1 W2 : World} {rec1 rec2 : Analyse} {fn1 fn2 : Fn} {isig1 isig2 : Sg}
    {stack1 stack2 : List String} {its : List Item} {s1 s2 t1 t2 s1' s2' : VisitSt} {a b : FIS}
    (ht1 : t1.inters = s1.inters ++ [a]) (ht2 : t2.inters = s2.inters ++ [b])
    (h1 : visitItems m W1 rec1 fn1 isig1 stack1 t1 its = .ok s1')
    (h2 : visitItems m W2 rec2 fn2 isig2 stack2 t2 its = .ok s2')
    (hlen : s1.inters.length = s2.inters.length)
    (hfin : s1'.inters.map FIS.retSig = s2'.inters.map FIS.retSig) : a.retSig = b.retSig := by
  obtain ⟨d1, e1⟩ := visitItems_grows h1
  obtain ⟨d2, e2⟩ := visitItems_grows h2
  rw [e1, e2, ht1, ht2] at hfin
  simp only [map_append, append_assoc] at hfin
  have := (append_inj hfin (by simp [hlen])).2
  simpa using (cons.inj (by simpa using this)).1

/-! ## Loads: the paths an interaction tree reads, agreement of two plain states -/

mutual
/-- every path loaded by the call or by anything below it -/
def FIS.allLoads : FIS → List String
  | .mk _ _ _ subs loads => loads.map Prod.fst ++ FIS.allLoadsL subs
def FIS.allLoadsL : List FIS → List String
  | [] => []
  | f :: fs => FIS.allLoads f ++ FIS.allLoadsL fs
end

theorem allLoadsL_mem {p : String} : ∀ {fs : List FIS} {f : FIS}, f ∈ fs → p ∈ f.allLoads → p ∈ FIS.allLoadsL fs
  | g :: gs, f, hm, hp => by
    simp only [FIS.allLoadsL, mem_append]
    rcases mem_cons.mp hm with rfl | hm
    · exact Or.inl hp
    · exact Or.inr (allLoadsL_mem hm hp)

theorem withPath_allLoads (f : FIS) (p : String) : (f.withPath p).allLoads = f.allLoads := by
  obtain ⟨n, s, sp, subs, l⟩ := f
  simp [FIS.withPath, FIS.allLoads, FIS.subs, FIS.loads]

/-- two plain states agree on a set of paths -/
def KAgree (G : List String) (q1 q2 : PSt) : Prop := ∀ p ∈ G, aget q1.kept p = aget q2.kept p

/-- wherever the states agreed before, they agree after -/
def KeptPres (q1 q2 r1 r2 : PSt) : Prop := ∀ p, aget q1.kept p = aget q2.kept p → aget r1.kept p = aget r2.kept p

theorem KeptPres.refl (q1 q2 : PSt) : KeptPres q1 q2 q1 q2 := fun _ h => h
theorem KeptPres.trans {a1 a2 b1 b2 c1 c2 : PSt} (h1 : KeptPres a1 a2 b1 b2) (h2 : KeptPres b1 b2 c1 c2) :
    KeptPres a1 a2 c1 c2 := fun p h => h2 p (h1 p h)
theorem KeptPres.agree {G : List String} {q1 q2 r1 r2 : PSt} (h : KeptPres q1 q2 r1 r2) (ha : KAgree G q1 q2) :
    KAgree G r1 r2 := fun p hp => h p (ha p hp)
theorem KeptPres.log {q1 q2 r1 r2 : PSt} (h : KeptPres q1 q2 r1 r2) (l1 l2 : List String) :
    KeptPres { q1 with log := l1 } { q2 with log := l2 } r1 r2 := h

theorem KeptPres.aset {q1 q2 r1 r2 : PSt} (h : KeptPres q1 q2 r1 r2) (p : String) (v : RVal) :
    KeptPres q1 q2 { r1 with kept := aset r1.kept p v } { r2 with kept := aset r2.kept p v } := by
  intro x hx
  by_cases hpx : x = p
  · subst hpx; simp only [aget_aset_eq]
  · simp only [aget_aset_ne _ _ _ _ hpx]; exact h x hx

/-! ## Plain execution of a call-like item, value and state -/

/-- the result (value and state) of a call-like item; `kp`: the path of an explicit keep; `df`: a data function records its
result under its own path -/
def callRes (W : World) (rec : PlainRec) (st : PSt) (f : String) (pos : List RVal) (kw : List (String × RVal))
    (kp : Option String) (df : Bool) : PRes :=
  match W.find f with
  | none => (.error (.dds .objectNotFound), st)
  | some g => match bindRun g.params pos kw 0 with
    | none => (.error (.exc "TypeError" f), st)
    | some env' =>
      match rec st g env' with
      | (.ok v, st') =>
        (.ok v, match (match kp with | some p => some p | none => if df then g.storePath else none) with
          | some p => { st' with kept := aset st'.kept p v }
          | none => st')
      | r => r

theorem plainItemRes_call' (W : World) (rec : PlainRec) (env : Env) (st : PSt) (results : List RVal) (f : String) (l : Nat) :
    plainItemRes W rec env st results (.call f l) = callRes W rec st f [] [] none true := by
  simp only [plainItemRes, callRes]
  cases W.find f with
  | none => rfl
  | some g =>
    simp only
    cases bindRun g.params [] [] 0 with
    | none => rfl
    | some env' =>
      simp only
      cases rec st g env' with
      | mk r st' => cases r <;> first | rfl | simp

theorem plainItemRes_ref' (W : World) (rec : PlainRec) (env : Env) (st : PSt) (results : List RVal) (f : String) (l : Nat) :
    plainItemRes W rec env st results (.ref f l) = callRes W rec st f [] [] none true := by
  simp only [plainItemRes, callRes]
  cases W.find f with
  | none => rfl
  | some g =>
    simp only
    cases bindRun g.params [] [] 0 with
    | none => rfl
    | some env' =>
      simp only
      cases rec st g env' with
      | mk r st' => cases r <;> first | rfl | simp

theorem plainItemRes_callArgs' (W : World) (rec : PlainRec) (env : Env) (st : PSt) (results : List RVal) (f : String)
    (args kwargs rtA rtK) (l : Nat) :
    plainItemRes W rec env st results (.callArgs f args kwargs rtA rtK l) =
      callRes W rec st f (zipArgs results env args rtA) (zipKw results env kwargs rtK) none true := by
  simp only [plainItemRes, callRes]
  cases W.find f with
  | none => rfl
  | some g =>
    simp only
    cases bindRun g.params (zipArgs results env args rtA) (zipKw results env kwargs rtK) 0 with
    | none => rfl
    | some env' =>
      simp only
      cases rec st g env' with
      | mk r st' => cases r <;> rfl

theorem plainItemRes_keep' (W : World) (rec : PlainRec) (env : Env) (st : PSt) (results : List RVal) (path f : String)
    (args kwargs rtA rtK) (l : Nat) :
    plainItemRes W rec env st results (.keep path f args kwargs rtA rtK l) =
      callRes W rec st f (zipArgs results env args rtA) (zipKw results env kwargs rtK) (some path) false := by
  simp only [plainItemRes, callRes]

/-! ## The theorem -/

/-- `SS fuel1`: the statement for analyses of nesting depth at most `fuel1` in the first world: same signature, same
parameter values, plain states that agree on the loaded paths ⇒ same value, and the states still agree where they did -/
def SS (U : Universe) (m : Nat) (fuel1 : Nat) : Prop :=
  ∀ (fuel2 : Nat) (W1 W2 : World) (refs1 refs2 : Refs) (stack1 stack2 : List String) (fn1 fn2 : Fn)
    (ctx1 ctx2 : ArgCtx) (env : Env) (fis1 fis2 : FIS) (r1 r2 : Refs) (p1 p2 : PSt),
    U.world W1 → U.world W2 → W1.extVersion = W2.extVersion → U.fns fn1 → U.fns fn2 →
    analyse m W1 fuel1 refs1 stack1 fn1 ctx1 = .ok (fis1, r1) →
    analyse m W2 fuel2 refs2 stack2 fn2 ctx2 = .ok (fis2, r2) →
    fis1.retSig = fis2.retSig → KAgree fis1.allLoads p1 p2 →
    (plainFn W1 fuel1 p1 fn1 env).1 = (plainFn W2 fuel2 p2 fn2 env).1 ∧
    (∀ v, (plainFn W1 fuel1 p1 fn1 env).1 = .ok v →
      KeptPres p1 p2 (plainFn W1 fuel1 p1 fn1 env).2 (plainFn W2 fuel2 p2 fn2 env).2)

/-- two analysed calls with equal signatures are calls of functions with the same code -/
theorem sig_params (U : Universe) {m : Nat} {W1 W2 : World} {fuel1 fuel2 : Nat} {refs1 refs2 : Refs}
    {stack1 stack2 : List String} {fn1 fn2 : Fn} {ctx1 ctx2 : ArgCtx} {fis1 fis2 : FIS} {r1 r2 : Refs}
    (h1 : analyse m W1 fuel1 refs1 stack1 fn1 ctx1 = .ok (fis1, r1))
    (h2 : analyse m W2 fuel2 refs2 stack2 fn2 ctx2 = .ok (fis2, r2))
    (hU1 : U.fns fn1) (hU2 : U.fns fn2) (hs : fis1.retSig = fis2.retSig) : fn1.code = fn2.code ∧ fn1.vars = fn2.vars := by
  cases fuel1 with
  | zero => exact absurd h1 analyse_zero
  | succ k1 =>
    cases fuel2 with
    | zero => exact absurd h2 analyse_zero
    | succ k2 =>
      obtain ⟨_, _, _, _, _, _, a1⟩ := analyse_inv h1
      obtain ⟨_, _, _, _, _, _, a2⟩ := analyse_inv h2
      have := sig_code U a1 a2 hU1 hU2 hs
      exact ⟨this.1, this.2.1⟩

/-- a call-like item analysed in both worlds with equal signatures: equal values, agreement preserved -/
theorem callRes_eq (U : Universe) {m : Nat} {fuel1 fuel2 : Nat} (hSS : SS U m fuel1) {W1 W2 : World}
    (hW1 : U.world W1) (hW2 : U.world W2) (hext : W1.extVersion = W2.extVersion)
    {fn1 fn2 : Fn} {isig1 isig2 : Sg} {stack1 stack2 : List String} {s1 s2 : VisitSt} {f : String}
    {args : List AstArg} {kwargs : List (String × AstArg)} {line : Nat}
    {g1 g2 : Fn} {c1 c2 : Option Sg} {n1 n2 : List (String × Option Sg)} {a b : FIS} {rf1 rf2 : Refs}
    (hc1 : CallStep m W1 (analyse m W1 fuel1) fn1 isig1 stack1 s1 f args kwargs line g1 c1 n1 a rf1)
    (hc2 : CallStep m W2 (analyse m W2 fuel2) fn2 isig2 stack2 s2 f args kwargs line g2 c2 n2 b rf2)
    (hs : a.retSig = b.retSig) (pos : List RVal) (kw : List (String × RVal)) (kp : Option String) (df : Bool)
    (q1 q2 : PSt) (hag : KAgree a.allLoads q1 q2) :
    (callRes W1 (plainFn W1 fuel1) q1 f pos kw kp df).1 = (callRes W2 (plainFn W2 fuel2) q2 f pos kw kp df).1 ∧
    (∀ v, (callRes W1 (plainFn W1 fuel1) q1 f pos kw kp df).1 = .ok v →
      KeptPres q1 q2 (callRes W1 (plainFn W1 fuel1) q1 f pos kw kp df).2 (callRes W2 (plainFn W2 fuel2) q2 f pos kw kp df).2) := by
  have hU1 := U.find hW1 hc1.find
  have hU2 := U.find hW2 hc2.find
  have hcode := (sig_params U hc1.sub hc2.sub hU1 hU2 hs).1
  have hpar : g1.params = g2.params := congrArg Code.params hcode
  have hsp : g1.storePath = g2.storePath := congrArg Code.storePath hcode
  simp only [callRes, hc1.find, hc2.find, hpar, hsp]
  cases bindRun g2.params pos kw 0 with
  | none => exact ⟨rfl, fun v hv => by cases hv⟩
  | some env' =>
    obtain ⟨e1, e2⟩ := hSS fuel2 W1 W2 _ _ _ _ g1 g2 _ _ env' a b _ _ q1 q2 hW1 hW2 hext hU1 hU2 hc1.sub hc2.sub hs hag
    simp only
    cases hr1 : plainFn W1 fuel1 q1 g1 env' with
    | mk v1 st1 =>
      cases hr2 : plainFn W2 fuel2 q2 g2 env' with
      | mk v2 st2 =>
        rw [hr1, hr2] at e1 e2
        simp only at e1 e2
        subst e1
        cases v1 with
        | error e => exact ⟨rfl, fun v hv => by cases hv⟩
        | ok v =>
          refine ⟨rfl, fun _ _ => ?_⟩
          have hp := e2 v rfl
          simp only
          cases kp with
          | some p => exact hp.aset p v
          | none =>
            cases df with
            | false => exact hp
            | true =>
              simp only [if_true]
              cases g2.storePath with
              | none => exact hp
              | some p => exact hp.aset p v

/-- the functions already referenced by name in this body: same value in both worlds from any two states that agree on `G` -/
def SeenVal (W1 W2 : World) (rec1 rec2 : PlainRec) (G : List String) (seen : List String) : Prop :=
  ∀ f ∈ seen, ∀ q1 q2, KAgree G q1 q2 →
    (callRes W1 rec1 q1 f [] [] none true).1 = (callRes W2 rec2 q2 f [] [] none true).1 ∧
    (∀ v, (callRes W1 rec1 q1 f [] [] none true).1 = .ok v →
      KeptPres q1 q2 (callRes W1 rec1 q1 f [] [] none true).2 (callRes W2 rec2 q2 f [] [] none true).2)

/-- what the lock-step lemma concludes about the items of a body -/
def ItemsEq (W1 W2 : World) (rec1 rec2 : PlainRec) (env : Env) (q1 q2 : PSt) (results : List RVal) (its : List Item) : Prop :=
  (plainItems W1 rec1 env q1 results its).1 = (plainItems W2 rec2 env q2 results its).1 ∧
  (∀ rs, (plainItems W1 rec1 env q1 results its).1 = .ok rs →
    KeptPres q1 q2 (plainItems W1 rec1 env q1 results its).2 (plainItems W2 rec2 env q2 results its).2)

/-- what is to be shown about an item and the items after it, given the result of the item in both worlds -/
def ContEq (W1 W2 : World) (rec1 rec2 : PlainRec) (env : Env) (results : List RVal) (its : List Item)
    (q1 q2 : PSt) (r1 r2 : PRes) : Prop :=
  (match r1 with
    | (.ok v, st') => plainItems W1 rec1 env st' (results ++ [v]) its
    | (.error e, st') => (.error e, st')).1 =
  (match r2 with
    | (.ok v, st') => plainItems W2 rec2 env st' (results ++ [v]) its
    | (.error e, st') => (.error e, st')).1 ∧
  (∀ rs : List RVal, (match r1 with
    | (.ok v, st') => plainItems W1 rec1 env st' (results ++ [v]) its
    | (.error e, st') => (.error e, st')).1 = Except.ok rs →
    KeptPres q1 q2
      (match r1 with
        | (.ok v, st') => plainItems W1 rec1 env st' (results ++ [v]) its
        | (.error e, st') => (.error e, st')).2
      (match r2 with
        | (.ok v, st') => plainItems W2 rec2 env st' (results ++ [v]) its
        | (.error e, st') => (.error e, st')).2)

theorem cont_eq (W1 W2 : World) (rec1 rec2 : PlainRec) (env : Env) (results : List RVal) (its : List Item)
    (q1 q2 : PSt) (r1 r2 : PRes) (hr : r1.1 = r2.1) (hp : ∀ v, r1.1 = .ok v → KeptPres q1 q2 r1.2 r2.2)
    (hk : ∀ v, r1.1 = .ok v → ItemsEq W1 W2 rec1 rec2 env r1.2 r2.2 (results ++ [v]) its) :
    ContEq W1 W2 rec1 rec2 env results its q1 q2 r1 r2 := by
  unfold ContEq
  obtain ⟨v1, a1⟩ := r1
  obtain ⟨v2, a2⟩ := r2
  simp only at hr
  subst hr
  cases v1 with
  | error e => exact ⟨rfl, fun rs h => by cases h⟩
  | ok v =>
    simp only at hp hk ⊢
    obtain ⟨k1, k2⟩ := hk v rfl
    exact ⟨k1, fun rs h => (hp v rfl).trans (k2 rs h)⟩

theorem itemsEq_cons (W1 W2 : World) (rec1 rec2 : PlainRec) (env : Env) (q1 q2 : PSt) (results : List RVal) (it : Item)
    (its : List Item)
    (h : ContEq W1 W2 rec1 rec2 env results its q1 q2 (plainItemRes W1 rec1 env q1 results it) (plainItemRes W2 rec2 env q2 results it)) :
    ItemsEq W1 W2 rec1 rec2 env q1 q2 results (it :: its) := by
  unfold ItemsEq
  rw [plainItems_cons, plainItems_cons]
  exact h

/-! ## Loads met by the visitor -/

theorem load_inv {m : Nat} {W : World} {rec : Analyse} {fn : Fn} {isig : Sg} {stack : List String}
    {st st' : VisitSt} {path : String} {l : Nat} (h : visitItem m W rec fn isig stack st (.load path l) = .ok st') :
    st' = { st with loads := st.loads ++ [path] } := by
  unfold visitItem at h
  by_cases hp : pathAbsolute path = true
  · simp only [hp, Bool.not_true, Bool.false_eq_true, if_false, Except.ok.injEq] at h; exact h.symm
  · simp [hp] at h

theorem visitItem_loads_grow {m : Nat} {W : World} {rec : Analyse} {fn : Fn} {isig : Sg} {stack : List String}
    {st st' : VisitSt} {it : Item} (h : visitItem m W rec fn isig stack st it = .ok st') :
    ∃ d, st'.loads = st.loads ++ d := by
  cases it with
  | call f line =>
    obtain ⟨g, ctx, named, fis, refs, _, rfl⟩ := plain_inv (by simpa [visitItem] using h); exact ⟨[], by simp⟩
  | callArgs f args kwargs rtA rtK line =>
    obtain ⟨g, ctx, named, fis, refs, _, rfl⟩ := plain_inv (by simpa [visitItem] using h); exact ⟨[], by simp⟩
  | ref f line =>
    rcases ref_inv h with ⟨_, rfl⟩ | ⟨_, g, ctx, named, fis, refs, _, rfl⟩ <;> exact ⟨[], by simp⟩
  | keep path f args kwargs rtA rtK line =>
    obtain ⟨g, ctx, named, fis, refs, _, _, rfl⟩ := keep_inv h; exact ⟨[], by simp⟩
  | load path line => rw [load_inv h]; exact ⟨[path], rfl⟩
  | evalCall f line => simp [visitItem] at h

theorem visitItems_loads_grow {m : Nat} {W : World} {rec : Analyse} {fn : Fn} {isig : Sg} {stack : List String} :
    ∀ {its : List Item} {st st' : VisitSt}, visitItems m W rec fn isig stack st its = .ok st' →
    ∃ d, st'.loads = st.loads ++ d
  | [], st, st', h => by simp [visitItems] at h; subst h; exact ⟨[], by simp⟩
  | it :: its, st, st', h => by
    obtain ⟨t, h1, h2⟩ := visitItems_cons_inv h
    obtain ⟨d1, e1⟩ := visitItem_loads_grow h1
    obtain ⟨d2, e2⟩ := visitItems_loads_grow h2
    exact ⟨d1 ++ d2, by rw [e2, e1, append_assoc]⟩

theorem mem_dedupStr (p : String) : ∀ (l : List String), p ∈ dedupStr l ↔ p ∈ l
  | [] => by simp [dedupStr]
  | x :: xs => by
    simp only [dedupStr, mem_cons, mem_filter, mem_dedupStr p xs, ne_eq, decide_eq_true_eq]
    constructor
    · rintro (h | ⟨h, _⟩)
      · exact Or.inl h
      · exact Or.inr h
    · rintro (h | h)
      · exact Or.inl h
      · by_cases hx : p = x
        · exact Or.inl hx
        · exact Or.inr ⟨h, hx⟩

theorem lookupRefs_fst {refs : Refs} : ∀ {ps : List String} {d : List (String × Sg)}, lookupRefs refs ps = .ok d →
    d.map Prod.fst = ps
  | [], d, h => by simp [lookupRefs] at h; subst h; rfl
  | p :: ps, d, h => by
    unfold lookupRefs at h
    cases hg : aget refs p with
    | none => simp [hg] at h
    | some s =>
      simp only [hg] at h
      obtain ⟨r, hr, h⟩ := bind_ok h
      simp only [pure, Except.pure, Except.ok.injEq] at h
      subst h
      simp [lookupRefs_fst hr]

/-- **Lock step**: the same items, visited in two worlds with the same final signature list, from plain states that agree on
every path loaded in the body or below it: same results, agreement preserved -/
theorem lockstep (U : Universe) {m : Nat} {fuel1 fuel2 : Nat} (hSS : SS U m fuel1) {W1 W2 : World}
    (hW1 : U.world W1) (hW2 : U.world W2) (hext : W1.extVersion = W2.extVersion)
    (fn1 fn2 : Fn) (isig1 isig2 : Sg) (stack1 stack2 : List String) (env : Env) (G : List String) :
    ∀ (its : List Item), (∀ it ∈ its, ¬ it.isEval) → ∀ (s1 s1' s2 s2' : VisitSt) (results : List RVal) (q1 q2 : PSt),
      visitItems m W1 (analyse m W1 fuel1) fn1 isig1 stack1 s1 its = .ok s1' →
      visitItems m W2 (analyse m W2 fuel2) fn2 isig2 stack2 s2 its = .ok s2' →
      s1.inters.length = s2.inters.length → s1.seen = s2.seen →
      SeenVal W1 W2 (plainFn W1 fuel1) (plainFn W2 fuel2) G s1.seen →
      s1'.inters.map FIS.retSig = s2'.inters.map FIS.retSig →
      (∀ p, p ∈ s1'.loads → p ∈ G) → (∀ p, p ∈ FIS.allLoadsL s1'.inters → p ∈ G) →
      KAgree G q1 q2 →
      ItemsEq W1 W2 (plainFn W1 fuel1) (plainFn W2 fuel2) env q1 q2 results its
  | [], _, _, _, _, _, _, q1, q2, _, _, _, _, _, _, _, _, _ => ⟨rfl, fun _ _ => KeptPres.refl q1 q2⟩
  | it :: its, hnl, s1, s1', s2, s2', results, q1, q2, h1, h2, hlen, hseen, hsv, hfin, hGl, hGt, hag => by
    obtain ⟨t1, hv1, hr1⟩ := visitItems_cons_inv h1
    obtain ⟨t2, hv2, hr2⟩ := visitItems_cons_inv h2
    have hnl' : ∀ it ∈ its, ¬ it.isEval := fun x hx => hnl x (mem_cons_of_mem _ hx)
    apply itemsEq_cons
    -- the rest of the items, from any pair of states that still agree on `G`
    have rest : ∀ (u1 u2 : VisitSt), t1 = u1 → t2 = u2 → u1.inters.length = u2.inters.length → u1.seen = u2.seen →
        SeenVal W1 W2 (plainFn W1 fuel1) (plainFn W2 fuel2) G u1.seen →
        ∀ v (a1 a2 : PSt), KAgree G a1 a2 →
          ItemsEq W1 W2 (plainFn W1 fuel1) (plainFn W2 fuel2) env a1 a2 (results ++ [v]) its := by
      intro u1 u2 e1 e2 hl hs' hsv' v a1 a2 ha
      subst e1; subst e2
      exact lockstep U hSS hW1 hW2 hext fn1 fn2 isig1 isig2 stack1 stack2 env G its hnl' t1 s1' t2 s2' _ a1 a2 hr1 hr2
        hl hs' hsv' hfin hGl hGt ha
    -- a call-like item whose analysed FIS are `a` and `b` (appended as `na`, `nb`)
    have one : ∀ (a b na nb : FIS) (g1 g2 : Fn) (c1 c2 : Option Sg) (n1 n2 : List (String × Option Sg)) (rf1 rf2 : Refs)
        (f : String) (args : List AstArg) (kwargs : List (String × AstArg)) (line : Nat)
        (pos : List RVal) (kw : List (String × RVal)) (kp : Option String) (df : Bool) (seen' : List String),
        CallStep m W1 (analyse m W1 fuel1) fn1 isig1 stack1 s1 f args kwargs line g1 c1 n1 a rf1 →
        CallStep m W2 (analyse m W2 fuel2) fn2 isig2 stack2 s2 f args kwargs line g2 c2 n2 b rf2 →
        t1.inters = s1.inters ++ [na] → t2.inters = s2.inters ++ [nb] → na.retSig = a.retSig → nb.retSig = b.retSig →
        na.allLoads = a.allLoads → t1.seen = seen' → t2.seen = seen' →
        SeenVal W1 W2 (plainFn W1 fuel1) (plainFn W2 fuel2) G seen' →
        ContEq W1 W2 (plainFn W1 fuel1) (plainFn W2 fuel2) env results its q1 q2
          (callRes W1 (plainFn W1 fuel1) q1 f pos kw kp df) (callRes W2 (plainFn W2 fuel2) q2 f pos kw kp df) := by
      intro a b na nb g1 g2 c1 c2 n1 n2 rf1 rf2 f args kwargs line pos kw kp df seen' hc1 hc2 i1 i2 hna hnb hla hs1 hs2 hsv'
      have hsig : a.retSig = b.retSig := by
        rw [← hna, ← hnb]; exact next_sig_eq i1 i2 hr1 hr2 hlen hfin
      have hin : na ∈ s1'.inters := by
        obtain ⟨d, hd⟩ := visitItems_grows hr1
        rw [hd, i1]; simp
      have haa : KAgree a.allLoads q1 q2 := fun p hp => hag p (hGt p (allLoadsL_mem hin (hla ▸ hp)))
      obtain ⟨c1', c2'⟩ := callRes_eq U hSS hW1 hW2 hext hc1 hc2 hsig pos kw kp df q1 q2 haa
      refine cont_eq W1 W2 _ _ env results its q1 q2 _ _ c1' c2' ?_
      intro v hv
      exact rest t1 t2 rfl rfl (by rw [i1, i2]; simp [hlen]) (by rw [hs1, hs2]) (hs1 ▸ hsv') v _ _ ((c2' v hv).agree hag)
    cases it with
    | call f line =>
      obtain ⟨g1, c1, n1, a, rf1, hc1, e1⟩ := plain_inv (by simpa [visitItem] using hv1)
      obtain ⟨g2, c2, n2, b, rf2, hc2, e2⟩ := plain_inv (by simpa [visitItem] using hv2)
      rw [plainItemRes_call', plainItemRes_call']
      exact one a b a b g1 g2 c1 c2 n1 n2 rf1 rf2 f [] [] line [] [] none true s1.seen hc1 hc2 (by rw [e1]) (by rw [e2]) rfl rfl rfl
        (by rw [e1]) (by rw [e2, hseen]) hsv
    | callArgs f args kwargs rtA rtK line =>
      obtain ⟨g1, c1, n1, a, rf1, hc1, e1⟩ := plain_inv (by simpa [visitItem] using hv1)
      obtain ⟨g2, c2, n2, b, rf2, hc2, e2⟩ := plain_inv (by simpa [visitItem] using hv2)
      rw [plainItemRes_callArgs', plainItemRes_callArgs']
      exact one a b a b g1 g2 c1 c2 n1 n2 rf1 rf2 f args kwargs line _ _ none true s1.seen hc1 hc2 (by rw [e1]) (by rw [e2]) rfl rfl rfl
        (by rw [e1]) (by rw [e2, hseen]) hsv
    | keep path f args kwargs rtA rtK line =>
      obtain ⟨g1, c1, n1, a, rf1, hc1, _, e1⟩ := keep_inv hv1
      obtain ⟨g2, c2, n2, b, rf2, hc2, _, e2⟩ := keep_inv hv2
      rw [plainItemRes_keep', plainItemRes_keep']
      exact one a b (a.withPath path) (b.withPath path) g1 g2 c1 c2 n1 n2 rf1 rf2 f args kwargs line _ _ (some path) false s1.seen
        hc1 hc2 (by rw [e1]) (by rw [e2]) rfl rfl (withPath_allLoads a path) (by rw [e1]) (by rw [e2, hseen]) hsv
    | ref f line =>
      rw [plainItemRes_ref', plainItemRes_ref']
      rcases ref_inv hv1 with ⟨hin1, e1⟩ | ⟨hnot1, g1, c1, n1, a, rf1, hc1, e1⟩
      · rcases ref_inv hv2 with ⟨_, e2⟩ | ⟨hnot2, _⟩
        · -- already referenced in this body: not analysed again
          obtain ⟨c1', c2'⟩ := hsv f hin1 q1 q2 hag
          refine cont_eq W1 W2 _ _ env results its q1 q2 _ _ c1' c2' ?_
          intro v hv
          exact rest s1 s2 e1 e2 hlen hseen hsv v _ _ ((c2' v hv).agree hag)
        · exact absurd (hseen ▸ hin1) hnot2
      · rcases ref_inv hv2 with ⟨hin2, _⟩ | ⟨_, g2, c2, n2, b, rf2, hc2, e2⟩
        · exact absurd (hseen ▸ hin2) hnot1
        · have hsig : a.retSig = b.retSig := by
            have i1 : t1.inters = s1.inters ++ [a] := by rw [e1]
            have i2 : t2.inters = s2.inters ++ [b] := by rw [e2]
            exact next_sig_eq i1 i2 hr1 hr2 hlen hfin
          have hin : a ∈ s1'.inters := by
            obtain ⟨d, hd⟩ := visitItems_grows hr1
            rw [hd, e1]; simp
          have hsv' : SeenVal W1 W2 (plainFn W1 fuel1) (plainFn W2 fuel2) G (f :: s1.seen) := by
            intro f' hf' a1 a2 ha
            rcases mem_cons.mp hf' with rfl | h
            · exact callRes_eq U hSS hW1 hW2 hext hc1 hc2 hsig [] [] none true a1 a2
                (fun p hp => ha p (hGt p (allLoadsL_mem hin hp)))
            · exact hsv f' h a1 a2 ha
          exact one a b a b g1 g2 c1 c2 n1 n2 rf1 rf2 f [] [] line [] [] none true (f :: s1.seen) hc1 hc2 (by rw [e1]) (by rw [e2])
            rfl rfl rfl (by rw [e1]) (by rw [e2, hseen]) hsv'
    | load path line =>
      have e1 := load_inv hv1
      have e2 := load_inv hv2
      have hpG : path ∈ G := by
        obtain ⟨d, hd⟩ := visitItems_loads_grow hr1
        apply hGl
        rw [hd, e1]; simp
      have hk := hag path hpG
      unfold ContEq
      simp only [plainItemRes, hk]
      cases aget q2.kept path with
      | none => exact ⟨rfl, fun rs h => by cases h⟩
      | some v =>
        simp only
        obtain ⟨k1, k2⟩ := rest t1 t2 rfl rfl (by rw [e1, e2]; exact hlen) (by rw [e1, e2]; exact hseen) (by rw [e1]; exact hsv) v q1 q2 hag
        exact ⟨k1, k2⟩
    | evalCall f line => exact absurd (by simp [Item.isEval]) (hnl _ mem_cons_self)

def bodyOutcome (W : World) (fn : Fn) (env : Env) : Except XErr (List RVal) → Except XErr RVal
  | .error e => .error e
  | .ok results => match fn.fails with
    | some kind => .error (.exc kind fn.name)
    | none => .ok (bodyValue W fn env results)

theorem plainFn_succ_fst (W : World) (fuel : Nat) (st : PSt) (fn : Fn) (env : Env) :
    (plainFn W (fuel + 1) st fn env).1 =
      bodyOutcome W fn env (plainItems W (plainFn W fuel) env { st with log := st.log ++ [fn.name] } [] fn.items).1 := by
  simp only [plainFn]
  generalize plainItems W (plainFn W fuel) env { st with log := st.log ++ [fn.name] } [] fn.items = r
  obtain ⟨v, q⟩ := r
  cases v with
  | error e => rfl
  | ok results =>
    simp only [bodyOutcome]
    cases fn.fails <;> rfl

theorem plainFn_succ_snd (W : World) (fuel : Nat) (st : PSt) (fn : Fn) (env : Env) :
    (plainFn W (fuel + 1) st fn env).2 =
      (plainItems W (plainFn W fuel) env { st with log := st.log ++ [fn.name] } [] fn.items).2 := by
  simp only [plainFn]
  generalize plainItems W (plainFn W fuel) env { st with log := st.log ++ [fn.name] } [] fn.items = r
  obtain ⟨v, q⟩ := r
  cases v with
  | error e => rfl
  | ok results => simp only; cases fn.fails <;> rfl

theorem bodyOutcome_ok {W : World} {fn : Fn} {env : Env} {r : Except XErr (List RVal)} {v : RVal}
    (h : bodyOutcome W fn env r = .ok v) : ∃ rs, r = .ok rs := by
  cases r with
  | error e => simp [bodyOutcome] at h
  | ok rs => exact ⟨rs, rfl⟩

theorem bodyOutcome_congr {W1 W2 : World} {fn1 fn2 : Fn} (hc : fn1.code = fn2.code) (hv : fn1.vars = fn2.vars)
    (hext : W1.extVersion = W2.extVersion) (env : Env) (r : Except XErr (List RVal)) :
    bodyOutcome W1 fn1 env r = bodyOutcome W2 fn2 env r := by
  have h1 : fn1.params = fn2.params := congrArg Code.params hc
  have h2 : fn1.tag = fn2.tag := congrArg Code.tag hc
  have h3 : fn1.fails = fn2.fails := congrArg Code.fails hc
  have h4 : fn1.usesExt = fn2.usesExt := congrArg Code.usesExt hc
  have h5 : fn1.ws = fn2.ws := congrArg Code.ws hc
  have h6 : fn1.name = fn2.name := congrArg Code.name hc
  cases r with
  | error e => rfl
  | ok results => simp only [bodyOutcome, bodyValue, h1, h2, h3, h4, h5, h6, hv, hext]

/-- **`sig_sound` (code part).** Two calls — in any two versions of the code from the universe — that the analysis
gives the same return signature, run on the same parameter values from plain states that agree on the paths they load,
return the same value (or raise the same exception) under plain execution, and the states go on agreeing wherever they
did. No bound on the size or depth of the programs. -/
theorem sig_sound (U : Universe) (m : Nat) : ∀ fuel1, SS U m fuel1
  | 0 => by
    intro fuel2 W1 W2 refs1 refs2 stack1 stack2 fn1 fn2 ctx1 ctx2 env fis1 fis2 r1 r2 p1 p2 _ _ _ _ _ h1
    exact absurd h1 analyse_zero
  | k1 + 1 => by
    intro fuel2 W1 W2 refs1 refs2 stack1 stack2 fn1 fn2 ctx1 ctx2 env fis1 fis2 r1 r2 p1 p2 hW1 hW2 hext hU1 hU2 h1 h2 hs hag
    cases fuel2 with
    | zero => exact absurd h2 analyse_zero
    | succ k2 =>
      obtain ⟨ev1, io1, st1, b1, d1, ret1, a1⟩ := analyse_inv h1
      obtain ⟨ev2, io2, st2, b2, d2, ret2, a2⟩ := analyse_inv h2
      obtain ⟨hcode, hvars, hsubs⟩ := sig_code U a1 a2 hU1 hU2 hs
      have hitems : fn1.items = fn2.items := congrArg Code.items hcode
      have hname : fn1.name = fn2.name := congrArg Code.name hcode
      have hv2 := a2.hvisit
      rw [← hitems] at hv2
      -- the loads of the tree: those of the body and those of the calls below
      have hall : fis1.allLoads = d1.map Prod.fst ++ FIS.allLoadsL st1.inters := by rw [a1.hfis]; rfl
      have hGl : ∀ p, p ∈ st1.loads → p ∈ fis1.allLoads := by
        intro p hp
        rw [hall, lookupRefs_fst a1.hdeps]
        exact mem_append_left _ ((mem_dedupStr p _).mpr hp)
      have hGt : ∀ p, p ∈ FIS.allLoadsL st1.inters → p ∈ fis1.allLoads := by
        intro p hp; rw [hall]; exact mem_append_right _ hp
      have hls := lockstep U (sig_sound U m k1) hW1 hW2 hext fn1 fn2 _ _ stack1 stack2 env fis1.allLoads fn1.items
        (U.noEval fn1 hU1) _ st1 _ st2 [] { p1 with log := p1.log ++ [fn1.name] } { p2 with log := p2.log ++ [fn2.name] }
        a1.hvisit hv2 rfl rfl (fun f hf => absurd hf (by simp)) hsubs hGl hGt hag
      obtain ⟨l1, l2⟩ := hls
      rw [plainFn_succ_fst, plainFn_succ_fst, plainFn_succ_snd, plainFn_succ_snd, bodyOutcome_congr hcode hvars hext,
        ← hitems]
      refine ⟨by rw [l1], ?_⟩
      intro v hv
      obtain ⟨rs, hrs⟩ := bodyOutcome_ok hv
      exact l2 rs hrs

end Dds
