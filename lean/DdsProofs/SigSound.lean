import DdsProofs.AnalyseInv
import DdsProofs.SigInj
/-!
# A signature determines the plain value (`sig_sound`, code part)

`SS`: if two calls — possibly in two different versions of the code (two worlds) — get the same return
signature from the analysis and are run with the same parameter values, plain execution of the two
returns the same value. This is the heart of C01 (a stored blob may be served) and of C02 (equal cone ⇒
equal signature is the converse direction).

Hypotheses (the *universe* of function versions the theorem talks about):
* `faithful`  — the source text of a function determines its code (name, parameters, items, tag, …): two
  versions with the same lines are the same program. This is a property of Python (the text *is* the
  program) and of the generator's renderer; the harness checks it on every generated version.
* `varsInj`, `argsInj` — `dds_hash` is injective on the values of tracked variables that occur, and on the argument
  values that occur (two separate sets: a variable is never compared with an argument) (C05 proves exactly which
  values collide: `collide_iff`; the generator's pools are collision-free).
* `noLoads`   — this file covers the load-free fragment (`call`, `callArgs`, `ref`, `keep` items).
-/
namespace Dds
open List

/-- what the source text of a function determines -/
structure Code where
  name : String
  params : List Param
  storePath : Option String
  tag : String
  items : List Item
  fails : Option String
  usesExt : Bool
  ws : Option Bool
  varNames : List String

def Fn.code (f : Fn) : Code :=
  ⟨f.name, f.params, f.storePath, f.tag, f.items, f.fails, f.usesExt, f.ws, f.vars.map Prod.fst⟩

def Item.noLoad : Item → Prop
  | .load _ _ => False
  | .evalCall _ _ => False
  | _ => True

/-- the literal arguments written at a call -/
def Item.hasConst (it : Item) (v : PyVal) : Prop :=
  match it with
  | .callArgs _ args kwargs _ _ _ | .keep _ _ args kwargs _ _ _ =>
    AstArg.const v ∈ args ∨ ∃ n, (n, AstArg.const v) ∈ kwargs
  | _ => False

/-- the line where the call of an item ends -/
def Item.line : Item → Nat
  | .call _ l | .ref _ l | .load _ l | .evalCall _ l => l
  | .callArgs _ _ _ _ _ l | .keep _ _ _ _ _ _ l => l

structure Universe where
  fns : Fn → Prop
  /-- the values of tracked variables that occur -/
  vals : PyVal → Prop
  /-- the argument values that occur: literals at calls, defaults, arguments of entry calls -/
  avals : PyVal → Prop
  faithful : ∀ f g, fns f → fns g → f.lines = g.lines → f.code = g.code
  varsInj : ∀ v w, vals v → vals w → canonKF v = canonKF w → v = w
  argsInj : ∀ v w, avals v → avals w → canonKF v = canonKF w → v = w
  varsIn : ∀ f, fns f → ∀ nv ∈ f.vars, vals nv.2
  varNames : ∀ f, fns f → (f.vars.map Prod.fst).Nodup
  noLoads : ∀ f, fns f → ∀ it ∈ f.items, it.noLoad
  /-- literal arguments and defaults are values on which `dds_hash` is injective; parameters are plain -/
  constsIn : ∀ f, fns f → ∀ it ∈ f.items, ∀ v, it.hasConst v → avals v
  defaultsIn : ∀ f, fns f → ∀ p ∈ f.params, ∀ d, p.default = some d → avals d
  plainParams : ∀ f, fns f → plainParams f.params = true
  /-- parameter names are distinct, and none is called `context` (the key `arg_context` is reserved) -/
  paramNames : ∀ f, fns f → (f.params.map Param.name).Nodup
  noCtxParam : ∀ f, fns f → ∀ p ∈ f.params, p.name ≠ "context"
  /-- items are listed in source order, one call per line, inside the text -/
  sorted : ∀ f, fns f → f.items.Pairwise (fun a b => a.line < b.line)
  lineBound : ∀ f, fns f → ∀ it ∈ f.items, it.line < f.lines.length
  /-- the text up to a line determines the parameters and the calls up to that line -/
  prefixFaithful : ∀ f g n, fns f → fns g → f.lines.take (n + 1) = g.lines.take (n + 1) →
    f.params = g.params ∧ f.items.filter (fun it => it.line ≤ n) = g.items.filter (fun it => it.line ≤ n)

def Universe.world (U : Universe) (W : World) : Prop := ∀ f ∈ W.funs, U.fns f

theorem Universe.find {U : Universe} {W : World} (hW : U.world W) {n : String} {g : Fn} (h : W.find n = some g) :
    U.fns g := hW g (List.mem_of_find?_eq_some h)

/-! ## Hash injectivity on source lines and on variable values -/

theorem canonKFL_strs_inj : ∀ (a b : List String), canonKFL (a.map PyVal.str) = canonKFL (b.map PyVal.str) → a = b
  | [], [], _ => rfl
  | [], _ :: _, h => by simp [canonKFL] at h
  | _ :: _, [], h => by simp [canonKFL] at h
  | x :: xs, y :: ys, h => by
    simp only [map_cons, canonKFL, canonKF, cons.injEq, CVal.atom.injEq] at h
    rw [utf8_inj h.1, canonKFL_strs_inj xs ys h.2]

theorem mkSeq_inj {a b : List CVal} (h : mkSeq a = mkSeq b) : a = b := by
  unfold mkSeq at h
  cases a with
  | nil => cases b with
    | nil => rfl
    | cons y ys => simp at h
  | cons x xs => cases b with
    | nil => simp at h
    | cons y ys => simpa using h

theorem hashLines_inj {m : Nat} {a b : List String} {s : Sg}
    (ha : hashLines m a = .ok s) (hb : hashLines m b = .ok s) : a = b := by
  have h1 := ddsHash_eq_hashC m _ _ (liftH_ok ha)
  have h2 := ddsHash_eq_hashC m _ _ (liftH_ok hb)
  have := hashC_inj _ _ (canonKF_wf _) (canonKF_wf _) (h1.symm.trans h2)
  simp only [canonKF] at this
  exact canonKFL_strs_inj a b (mkSeq_inj this)

theorem hashVars_names {m : Nat} : ∀ {vs : List (String × PyVal)} {ev : List (String × Sg)},
    hashVars m vs = .ok ev → ev.map Prod.fst = vs.map Prod.fst
  | [], ev, h => by simp [hashVars] at h; subst h; rfl
  | (n, v) :: vs, ev, h => by
    unfold hashVars at h
    obtain ⟨hh, _, h⟩ := bind_ok h
    obtain ⟨r, hr, h⟩ := bind_ok h
    simp only [pure, Except.pure, Except.ok.injEq] at h
    subst h
    simp [hashVars_names hr]

/-- two variable lists with the same names (distinct) whose hashed forms have the same members are equal -/
theorem vars_eq (U : Universe) {m : Nat} : ∀ {vs ws : List (String × PyVal)} {ev ew : List (String × Sg)},
    hashVars m vs = .ok ev → hashVars m ws = .ok ew → vs.map Prod.fst = ws.map Prod.fst →
    (vs.map Prod.fst).Nodup → (∀ nv ∈ vs, U.vals nv.2) → (∀ nv ∈ ws, U.vals nv.2) →
    (∀ l s, (l, s) ∈ ev ↔ (l, s) ∈ ew) → vs = ws
  | [], [], _, _, _, _, _, _, _, _, _ => rfl
  | [], _ :: _, _, _, _, _, hn, _, _, _, _ => by simp at hn
  | _ :: _, [], _, _, _, _, hn, _, _, _, _ => by simp at hn
  | (n, v) :: vs, (n', w) :: ws, ev, ew, h1, h2, hn, hnd, hv, hw, hmem => by
    simp only [map_cons, cons.injEq] at hn
    obtain ⟨hn1, hn2⟩ := hn
    subst hn1
    unfold hashVars at h1 h2
    obtain ⟨hv1, e1, h1⟩ := bind_ok h1
    obtain ⟨r1, hr1, h1⟩ := bind_ok h1
    obtain ⟨hw1, e2, h2⟩ := bind_ok h2
    obtain ⟨r2, hr2, h2⟩ := bind_ok h2
    simp only [pure, Except.pure, Except.ok.injEq] at h1 h2
    subst h1; subst h2
    simp only [map_cons, nodup_cons] at hnd
    have hnames1 := hashVars_names hr1
    have hnames2 := hashVars_names hr2
    have hnot1 : ∀ s, (n, s) ∉ r1 := fun s hs => hnd.1 (hnames1 ▸ mem_map.mpr ⟨_, hs, rfl⟩)
    have hnot2 : ∀ s, (n, s) ∉ r2 := fun s hs => hnd.1 (hn2 ▸ hnames2 ▸ mem_map.mpr ⟨_, hs, rfl⟩)
    have hh : hv1 = hw1 := by
      have := (hmem n hv1).mp mem_cons_self
      rcases mem_cons.mp this with h | h
      · exact (Prod.mk.injEq _ _ _ _ ▸ h).2
      · exact absurd h (hnot2 _)
    subst hh
    have hvw : v = w := by
      have a := ddsHash_eq_hashC m _ _ (liftH_ok e1)
      have b := ddsHash_eq_hashC m _ _ (liftH_ok e2)
      exact U.varsInj v w (hv _ mem_cons_self) (hw _ mem_cons_self)
        (hashC_inj _ _ (canonKF_wf _) (canonKF_wf _) (a.symm.trans b))
    subst hvw
    have htail : ∀ l s, (l, s) ∈ r1 ↔ (l, s) ∈ r2 := by
      intro l s
      constructor
      · intro h
        rcases mem_cons.mp ((hmem l s).mp (mem_cons_of_mem _ h)) with h' | h'
        · simp only [Prod.mk.injEq] at h'; exact absurd (h'.1 ▸ h) (hnot1 _)
        · exact h'
      · intro h
        rcases mem_cons.mp ((hmem l s).mpr (mem_cons_of_mem _ h)) with h' | h'
        · simp only [Prod.mk.injEq] at h'; exact absurd (h'.1 ▸ h) (hnot2 _)
        · exact h'
    rw [vars_eq U hr1 hr2 hn2 hnd.2 (fun nv h => hv nv (mem_cons_of_mem _ h))
      (fun nv h => hw nv (mem_cons_of_mem _ h)) htail]

theorem buildReturnSig_argPairs {b : Option Sg} {a : ArgCtx} {deps : List (String × Sg)} {subs : List Sg}
    {ed : List (String × String)} {ev : List (String × Sg)} {r : Option Sg}
    (h : buildReturnSig b a deps subs ed ev = .ok r) : ∃ pa, argPairs a = .ok pa := by
  unfold buildReturnSig at h
  obtain ⟨pa, hpa, _⟩ := bind_ok h
  exact ⟨pa, hpa⟩

/-- **The signature determines the code**: two analysed calls with the same return signature are calls of the same
program text with the same tracked-variable values, and their sub-calls have the same signatures in order. -/
theorem sig_code (U : Universe) {m : Nat} {W1 W2 : World} {fuel1 fuel2 : Nat} {refs1 refs2 : Refs}
    {stack1 stack2 : List String} {fn1 fn2 : Fn} {ctx1 ctx2 : ArgCtx} {fis1 fis2 : FIS} {r1 r2 : Refs}
    {ev1 ev2 : List (String × Sg)} {io1 io2 : Option Sg} {st1 st2 : VisitSt} {b1 b2 : Sg}
    {d1 d2 : List (String × Sg)} {ret1 ret2 : Sg}
    (h1 : AnalyseOk m W1 fuel1 refs1 stack1 fn1 ctx1 fis1 r1 ev1 io1 st1 b1 d1 ret1)
    (h2 : AnalyseOk m W2 fuel2 refs2 stack2 fn2 ctx2 fis2 r2 ev2 io2 st2 b2 d2 ret2)
    (hU1 : U.fns fn1) (hU2 : U.fns fn2) (hs : fis1.retSig = fis2.retSig) :
    fn1.code = fn2.code ∧ fn1.vars = fn2.vars ∧ st1.inters.map FIS.retSig = st2.inters.map FIS.retSig := by
  rw [h1.retSig, h2.retSig] at hs
  subst hs
  obtain ⟨pa1, hpa1⟩ := buildReturnSig_argPairs h1.hret
  obtain ⟨pa2, hpa2⟩ := buildReturnSig_argPairs h2.hret
  obtain ⟨hb, _, _, hsubs, _, hev⟩ := buildReturnSig_inj _ _ _ _ _ _ _ _ _ _ _ _ pa1 pa2 hpa1 hpa2
    (h1.hret.trans h2.hret.symm)
  simp only [Option.some.injEq] at hb
  subst hb
  have hlines := hashLines_inj h1.hbody h2.hbody
  have hcode := U.faithful fn1 fn2 hU1 hU2 hlines
  have hnames : fn1.vars.map Prod.fst = fn2.vars.map Prod.fst := by
    have := congrArg Code.varNames hcode
    exact this
  exact ⟨hcode, vars_eq U h1.hvars h2.hvars hnames (U.varNames fn1 hU1) (U.varsIn fn1 hU1) (U.varsIn fn2 hU2) hev, hsubs⟩

/-! ## Plain execution, one item at a time -/

/-- the result of one item under plain execution (the `let r` of `plainItems`) -/
def plainItemRes (W : World) (rec : PlainRec) (env : Env) (st : PSt) (results : List RVal) : Item → PRes
  | .call f _ | .ref f _ =>
    match W.find f with
    | none => (.error (.dds .objectNotFound), st)
    | some g => match bindRun g.params [] [] 0 with
      | none => (.error (.exc "TypeError" f), st)
      | some env' =>
        match rec st g env' with
        | (.ok v, st') => (.ok v, match g.storePath with
            | some p => { st' with kept := aset st'.kept p v }
            | none => st')
        | r => r
  | .callArgs f args kwargs rtA rtK _ =>
    match W.find f with
    | none => (.error (.dds .objectNotFound), st)
    | some g => match bindRun g.params (zipArgs results env args rtA) (zipKw results env kwargs rtK) 0 with
      | none => (.error (.exc "TypeError" f), st)
      | some env' => rec st g env'
  | .keep path f args kwargs rtA rtK _ =>
    match W.find f with
    | none => (.error (.dds .objectNotFound), st)
    | some g => match bindRun g.params (zipArgs results env args rtA) (zipKw results env kwargs rtK) 0 with
      | none => (.error (.exc "TypeError" f), st)
      | some env' =>
        match rec st g env' with
        | (.ok v, st') => (.ok v, { st' with kept := aset st'.kept path v })
        | r => r
  | .load path _ =>
    match aget st.kept path with
    | some v => (.ok v, st)
    | none => (.error (.exc "KeyError" path), st)
  | .evalCall f _ =>
    match W.find f with
    | none => (.error (.dds .objectNotFound), st)
    | some g => match bindRun g.params [] [] 0 with
      | none => (.error (.exc "TypeError" f), st)
      | some env' => rec st g env'

theorem plainItems_cons (W : World) (rec : PlainRec) (env : Env) (st : PSt) (results : List RVal) (it : Item)
    (its : List Item) :
    plainItems W rec env st results (it :: its) =
      match plainItemRes W rec env st results it with
      | (.ok v, st') => plainItems W rec env st' (results ++ [v]) its
      | (.error e, st') => (.error e, st') := by
  cases it <;> rfl

/-- the value part of a call-like item: `find`, bind, run -/
def callVal (W : World) (rec : PlainRec) (st : PSt) (f : String) (pos : List RVal) (kw : List (String × RVal)) :
    Except XErr RVal :=
  match W.find f with
  | none => .error (.dds .objectNotFound)
  | some g => match bindRun g.params pos kw 0 with
    | none => .error (.exc "TypeError" f)
    | some env' => (rec st g env').1

theorem fst_keep_update (r : PRes) (upd : RVal → PSt → PSt) :
    (match r with
      | (.ok v, st') => ((.ok v : Except XErr RVal), upd v st')
      | r => r).1 = r.1 := by
  obtain ⟨v, st'⟩ := r
  cases v <;> rfl

theorem plainItemRes_call (W : World) (rec : PlainRec) (env : Env) (st : PSt) (results : List RVal) (f : String) (l : Nat) :
    (plainItemRes W rec env st results (.call f l)).1 = callVal W rec st f [] [] := by
  simp only [plainItemRes, callVal]
  cases W.find f with
  | none => rfl
  | some g =>
    simp only []
    cases bindRun g.params [] [] 0 with
    | none => rfl
    | some env' => exact fst_keep_update _ _

theorem plainItemRes_ref (W : World) (rec : PlainRec) (env : Env) (st : PSt) (results : List RVal) (f : String) (l : Nat) :
    (plainItemRes W rec env st results (.ref f l)).1 = callVal W rec st f [] [] := by
  simp only [plainItemRes, callVal]
  cases W.find f with
  | none => rfl
  | some g =>
    simp only []
    cases bindRun g.params [] [] 0 with
    | none => rfl
    | some env' => exact fst_keep_update _ _

theorem plainItemRes_callArgs (W : World) (rec : PlainRec) (env : Env) (st : PSt) (results : List RVal) (f : String)
    (args kwargs rtA rtK) (l : Nat) :
    (plainItemRes W rec env st results (.callArgs f args kwargs rtA rtK l)).1 =
      callVal W rec st f (zipArgs results env args rtA) (zipKw results env kwargs rtK) := by
  simp only [plainItemRes, callVal]
  cases W.find f with
  | none => rfl
  | some g =>
    simp only []
    cases bindRun g.params (zipArgs results env args rtA) (zipKw results env kwargs rtK) 0 with
    | none => rfl
    | some env' => rfl

theorem plainItemRes_keep (W : World) (rec : PlainRec) (env : Env) (st : PSt) (results : List RVal) (path f : String)
    (args kwargs rtA rtK) (l : Nat) :
    (plainItemRes W rec env st results (.keep path f args kwargs rtA rtK l)).1 =
      callVal W rec st f (zipArgs results env args rtA) (zipKw results env kwargs rtK) := by
  simp only [plainItemRes, callVal]
  cases W.find f with
  | none => rfl
  | some g =>
    simp only []
    cases bindRun g.params (zipArgs results env args rtA) (zipKw results env kwargs rtK) 0 with
    | none => rfl
    | some env' => exact fst_keep_update _ _

/-! ## Inversion of the visitor, item by item -/

theorem visitItems_cons_inv {m : Nat} {W : World} {rec : Analyse} {fn : Fn} {isig : Sg} {stack : List String}
    {st st' : VisitSt} {it : Item} {its : List Item}
    (h : visitItems m W rec fn isig stack st (it :: its) = .ok st') :
    ∃ t, visitItem m W rec fn isig stack st it = .ok t ∧ visitItems m W rec fn isig stack t its = .ok st' := by
  unfold visitItems at h
  exact bind_ok h

theorem ref_inv {m : Nat} {W : World} {rec : Analyse} {fn : Fn} {isig : Sg} {stack : List String}
    {st st' : VisitSt} {f : String} {line : Nat}
    (h : visitItem m W rec fn isig stack st (.ref f line) = .ok st') :
    (f ∈ st.seen ∧ st' = st) ∨
    (f ∉ st.seen ∧ ∃ g ctx named fis refs, CallStep m W rec fn isig stack st f [] [] line g ctx named fis refs ∧
      st' = { st with inters := st.inters ++ [fis], refs := refs, seen := f :: st.seen }) := by
  unfold visitItem at h
  by_cases hs : f ∈ st.seen
  · simp only [hs, if_true, Except.ok.injEq] at h
    exact Or.inl ⟨hs, h.symm⟩
  · simp only [hs, if_false] at h
    obtain ⟨t, ht, h⟩ := bind_ok h
    obtain ⟨g, ctx, named, fis, refs, hc, rfl⟩ := plain_inv ht
    simp only [pure, Except.pure, Except.ok.injEq] at h
    exact Or.inr ⟨hs, g, ctx, named, fis, refs, hc, h.symm⟩

theorem visitItem_grows {m : Nat} {W : World} {rec : Analyse} {fn : Fn} {isig : Sg} {stack : List String}
    {st st' : VisitSt} {it : Item} (h : visitItem m W rec fn isig stack st it = .ok st') :
    ∃ d, st'.inters = st.inters ++ d := by
  cases it with
  | call f line =>
    obtain ⟨g, ctx, named, fis, refs, _, rfl⟩ := plain_inv (by simpa [visitItem] using h)
    exact ⟨[fis], rfl⟩
  | callArgs f args kwargs rtA rtK line =>
    obtain ⟨g, ctx, named, fis, refs, _, rfl⟩ := plain_inv (by simpa [visitItem] using h)
    exact ⟨[fis], rfl⟩
  | ref f line =>
    rcases ref_inv h with ⟨_, rfl⟩ | ⟨_, g, ctx, named, fis, refs, _, rfl⟩
    · exact ⟨[], by simp⟩
    · exact ⟨[fis], rfl⟩
  | keep path f args kwargs rtA rtK line =>
    obtain ⟨g, ctx, named, fis, refs, _, _, rfl⟩ := keep_inv h
    exact ⟨[fis.withPath path], rfl⟩
  | load path line =>
    unfold visitItem at h
    by_cases hp : pathAbsolute path = true
    · simp only [hp, Bool.not_true, Bool.false_eq_true, if_false, Except.ok.injEq] at h
      subst h; exact ⟨[], by simp⟩
    · simp [hp] at h
  | evalCall f line => simp [visitItem] at h

theorem visitItems_grows {m : Nat} {W : World} {rec : Analyse} {fn : Fn} {isig : Sg} {stack : List String} :
    ∀ {its : List Item} {st st' : VisitSt}, visitItems m W rec fn isig stack st its = .ok st' →
    ∃ d, st'.inters = st.inters ++ d
  | [], st, st', h => by simp [visitItems] at h; subst h; exact ⟨[], by simp⟩
  | it :: its, st, st', h => by
    obtain ⟨t, h1, h2⟩ := visitItems_cons_inv h
    obtain ⟨d1, e1⟩ := visitItem_grows h1
    obtain ⟨d2, e2⟩ := visitItems_grows h2
    exact ⟨d1 ++ d2, by rw [e2, e1, append_assoc]⟩

/-- if the final signature lists agree and the prefixes have equal length, the signatures appended next agree -/
theorem next_sig_eq {m : Nat} {W1 W2 : World} {rec1 rec2 : Analyse} {fn1 fn2 : Fn} {isig1 isig2 : Sg}
    {stack1 stack2 : List String} {its : List Item} {s1 s2 t1 t2 s1' s2' : VisitSt} {a b : FIS}
    (ht1 : t1.inters = s1.inters ++ [a]) (ht2 : t2.inters = s2.inters ++ [b])
    (h1 : visitItems m W1 rec1 fn1 isig1 stack1 t1 its = .ok s1')
    (h2 : visitItems m W2 rec2 fn2 isig2 stack2 t2 its = .ok s2')
    (hlen : s1.inters.length = s2.inters.length)
    (hfin : s1'.inters.map FIS.retSig = s2'.inters.map FIS.retSig) : a.retSig = b.retSig := by
  obtain ⟨d1, e1⟩ := visitItems_grows h1
  obtain ⟨d2, e2⟩ := visitItems_grows h2
  rw [e1, e2, ht1, ht2] at hfin
  simp only [map_append, append_assoc] at hfin
  have := (append_inj hfin (by simp [hlen])).2
  simpa using (cons.inj (by simpa using this)).1

/-! ## The theorem -/

/-- `SS fuel1`: the statement for analyses of nesting depth at most `fuel1` in the first world -/
def SS (U : Universe) (m : Nat) (fuel1 : Nat) : Prop :=
  ∀ (fuel2 : Nat) (W1 W2 : World) (refs1 refs2 : Refs) (stack1 stack2 : List String) (fn1 fn2 : Fn)
    (ctx1 ctx2 : ArgCtx) (env : Env) (fis1 fis2 : FIS) (r1 r2 : Refs) (p1 p2 : PSt),
    U.world W1 → U.world W2 → W1.extVersion = W2.extVersion → U.fns fn1 → U.fns fn2 →
    analyse m W1 fuel1 refs1 stack1 fn1 ctx1 = .ok (fis1, r1) →
    analyse m W2 fuel2 refs2 stack2 fn2 ctx2 = .ok (fis2, r2) →
    fis1.retSig = fis2.retSig →
    (plainFn W1 fuel1 p1 fn1 env).1 = (plainFn W2 fuel2 p2 fn2 env).1

/-- two analysed calls with equal signatures are calls of functions with the same parameters -/
theorem sig_params (U : Universe) {m : Nat} {W1 W2 : World} {fuel1 fuel2 : Nat} {refs1 refs2 : Refs}
    {stack1 stack2 : List String} {fn1 fn2 : Fn} {ctx1 ctx2 : ArgCtx} {fis1 fis2 : FIS} {r1 r2 : Refs}
    (h1 : analyse m W1 fuel1 refs1 stack1 fn1 ctx1 = .ok (fis1, r1))
    (h2 : analyse m W2 fuel2 refs2 stack2 fn2 ctx2 = .ok (fis2, r2))
    (hU1 : U.fns fn1) (hU2 : U.fns fn2) (hs : fis1.retSig = fis2.retSig) : fn1.code = fn2.code ∧ fn1.vars = fn2.vars := by
  cases fuel1 with
  | zero => exact absurd h1 analyse_zero
  | succ k1 =>
    cases fuel2 with
    | zero => exact absurd h2 analyse_zero
    | succ k2 =>
      obtain ⟨_, _, _, _, _, _, a1⟩ := analyse_inv h1
      obtain ⟨_, _, _, _, _, _, a2⟩ := analyse_inv h2
      have := sig_code U a1 a2 hU1 hU2 hs
      exact ⟨this.1, this.2.1⟩

/-- a call-like item analysed in both worlds with equal signatures has equal plain values -/
theorem callVal_eq (U : Universe) {m : Nat} {fuel1 fuel2 : Nat} (hSS : SS U m fuel1) {W1 W2 : World}
    (hW1 : U.world W1) (hW2 : U.world W2) (hext : W1.extVersion = W2.extVersion)
    {fn1 fn2 : Fn} {isig1 isig2 : Sg} {stack1 stack2 : List String} {s1 s2 : VisitSt} {f : String}
    {args : List AstArg} {kwargs : List (String × AstArg)} {line : Nat}
    {g1 g2 : Fn} {c1 c2 : Option Sg} {n1 n2 : List (String × Option Sg)} {a b : FIS} {rf1 rf2 : Refs}
    (hc1 : CallStep m W1 (analyse m W1 fuel1) fn1 isig1 stack1 s1 f args kwargs line g1 c1 n1 a rf1)
    (hc2 : CallStep m W2 (analyse m W2 fuel2) fn2 isig2 stack2 s2 f args kwargs line g2 c2 n2 b rf2)
    (hs : a.retSig = b.retSig) (pos : List RVal) (kw : List (String × RVal)) (p1 p2 : PSt) :
    callVal W1 (plainFn W1 fuel1) p1 f pos kw = callVal W2 (plainFn W2 fuel2) p2 f pos kw := by
  have hU1 := U.find hW1 hc1.find
  have hU2 := U.find hW2 hc2.find
  have hcode := (sig_params U hc1.sub hc2.sub hU1 hU2 hs).1
  have hpar : g1.params = g2.params := congrArg Code.params hcode
  simp only [callVal, hc1.find, hc2.find, hpar]
  cases bindRun g2.params pos kw 0 with
  | none => rfl
  | some env' => exact hSS fuel2 W1 W2 _ _ _ _ g1 g2 _ _ env' a b _ _ p1 p2 hW1 hW2 hext hU1 hU2 hc1.sub hc2.sub hs

/-- the functions already referenced by name have the same plain value in both worlds -/
def SeenVal (W1 W2 : World) (rec1 rec2 : PlainRec) (seen : List String) : Prop :=
  ∀ f ∈ seen, ∀ p1 p2, callVal W1 rec1 p1 f [] [] = callVal W2 rec2 p2 f [] []

theorem cont_eq (W1 W2 : World) (rec1 rec2 : PlainRec) (env : Env) (results : List RVal) (its : List Item)
    (r1 r2 : PRes) (hr : r1.1 = r2.1)
    (hk : ∀ v q1 q2, (plainItems W1 rec1 env q1 (results ++ [v]) its).1 = (plainItems W2 rec2 env q2 (results ++ [v]) its).1) :
    (match r1 with
      | (.ok v, st') => plainItems W1 rec1 env st' (results ++ [v]) its
      | (.error e, st') => (.error e, st')).1 =
    (match r2 with
      | (.ok v, st') => plainItems W2 rec2 env st' (results ++ [v]) its
      | (.error e, st') => (.error e, st')).1 := by
  obtain ⟨v1, q1⟩ := r1
  obtain ⟨v2, q2⟩ := r2
  simp only at hr
  subst hr
  cases v1 with
  | ok v => exact hk v q1 q2
  | error e => rfl

/-- **Lock step**: the same items, visited in two worlds with the same final signature list, produce the same
plain results -/
theorem lockstep (U : Universe) {m : Nat} {fuel1 fuel2 : Nat} (hSS : SS U m fuel1) {W1 W2 : World}
    (hW1 : U.world W1) (hW2 : U.world W2) (hext : W1.extVersion = W2.extVersion)
    (fn1 fn2 : Fn) (isig1 isig2 : Sg) (stack1 stack2 : List String) (env : Env) :
    ∀ (its : List Item), (∀ it ∈ its, it.noLoad) → ∀ (s1 s1' s2 s2' : VisitSt) (results : List RVal) (p1 p2 : PSt),
      visitItems m W1 (analyse m W1 fuel1) fn1 isig1 stack1 s1 its = .ok s1' →
      visitItems m W2 (analyse m W2 fuel2) fn2 isig2 stack2 s2 its = .ok s2' →
      s1.inters.length = s2.inters.length → s1.seen = s2.seen →
      SeenVal W1 W2 (plainFn W1 fuel1) (plainFn W2 fuel2) s1.seen →
      s1'.inters.map FIS.retSig = s2'.inters.map FIS.retSig →
      (plainItems W1 (plainFn W1 fuel1) env p1 results its).1 = (plainItems W2 (plainFn W2 fuel2) env p2 results its).1
  | [], _, _, _, _, _, _, _, _, _, _, _, _, _, _ => rfl
  | it :: its, hnl, s1, s1', s2, s2', results, p1, p2, h1, h2, hlen, hseen, hsv, hfin => by
    obtain ⟨t1, hv1, hr1⟩ := visitItems_cons_inv h1
    obtain ⟨t2, hv2, hr2⟩ := visitItems_cons_inv h2
    have hnl' : ∀ it ∈ its, it.noLoad := fun x hx => hnl x (mem_cons_of_mem _ hx)
    rw [plainItems_cons, plainItems_cons]
    -- the common continuation once this item's FIS `a`, `b` are known
    have one : ∀ (a b : FIS) (u1 u2 : VisitSt), t1 = u1 → t2 = u2 →
        u1.inters = s1.inters ++ [a] → u2.inters = s2.inters ++ [b] → u1.seen = u2.seen →
        SeenVal W1 W2 (plainFn W1 fuel1) (plainFn W2 fuel2) u1.seen →
        a.retSig = b.retSig ∧ ∀ v q1 q2, (plainItems W1 (plainFn W1 fuel1) env q1 (results ++ [v]) its).1 =
          (plainItems W2 (plainFn W2 fuel2) env q2 (results ++ [v]) its).1 := by
      intro a b u1 u2 e1 e2 i1 i2 hs' hsv'
      subst e1; subst e2
      refine ⟨next_sig_eq i1 i2 hr1 hr2 hlen hfin, fun v q1 q2 => ?_⟩
      exact lockstep U hSS hW1 hW2 hext fn1 fn2 isig1 isig2 stack1 stack2 env its hnl' t1 s1' t2 s2' _ q1 q2 hr1 hr2
        (by rw [i1, i2]; simp [hlen]) hs' hsv' hfin
    cases it with
    | call f line =>
      obtain ⟨g1, c1, n1, a, rf1, hc1, e1⟩ := plain_inv (by simpa [visitItem] using hv1)
      obtain ⟨g2, c2, n2, b, rf2, hc2, e2⟩ := plain_inv (by simpa [visitItem] using hv2)
      obtain ⟨hsig, hk⟩ := one a b _ _ e1 e2 rfl rfl hseen hsv
      refine cont_eq W1 W2 _ _ env results its _ _ ?_ hk
      rw [plainItemRes_call, plainItemRes_call]
      exact callVal_eq U hSS hW1 hW2 hext hc1 hc2 hsig _ _ _ _
    | callArgs f args kwargs rtA rtK line =>
      obtain ⟨g1, c1, n1, a, rf1, hc1, e1⟩ := plain_inv (by simpa [visitItem] using hv1)
      obtain ⟨g2, c2, n2, b, rf2, hc2, e2⟩ := plain_inv (by simpa [visitItem] using hv2)
      obtain ⟨hsig, hk⟩ := one a b _ _ e1 e2 rfl rfl hseen hsv
      refine cont_eq W1 W2 _ _ env results its _ _ ?_ hk
      rw [plainItemRes_callArgs, plainItemRes_callArgs]
      exact callVal_eq U hSS hW1 hW2 hext hc1 hc2 hsig _ _ _ _
    | keep path f args kwargs rtA rtK line =>
      obtain ⟨g1, c1, n1, a, rf1, hc1, _, e1⟩ := keep_inv hv1
      obtain ⟨g2, c2, n2, b, rf2, hc2, _, e2⟩ := keep_inv hv2
      obtain ⟨hsig, hk⟩ := one (a.withPath path) (b.withPath path) _ _ e1 e2 rfl rfl hseen hsv
      refine cont_eq W1 W2 _ _ env results its _ _ ?_ hk
      rw [plainItemRes_keep, plainItemRes_keep]
      exact callVal_eq U hSS hW1 hW2 hext hc1 hc2 hsig _ _ _ _
    | ref f line =>
      rcases ref_inv hv1 with ⟨hin1, e1⟩ | ⟨hnot1, g1, c1, n1, a, rf1, hc1, e1⟩
      · rcases ref_inv hv2 with ⟨_, e2⟩ | ⟨hnot2, _⟩
        · -- already referenced in this body: not analysed again, the value is the one of the first reference
          rw [e1] at hr1; rw [e2] at hr2
          refine cont_eq W1 W2 _ _ env results its _ _ ?_ ?_
          · rw [plainItemRes_ref, plainItemRes_ref]; exact hsv f hin1 _ _
          · intro v q1 q2
            exact lockstep U hSS hW1 hW2 hext fn1 fn2 isig1 isig2 stack1 stack2 env its hnl' s1 s1' s2 s2' _ q1 q2 hr1 hr2
              hlen hseen hsv hfin
        · exact absurd (hseen ▸ hin1) hnot2
      · rcases ref_inv hv2 with ⟨hin2, _⟩ | ⟨_, g2, c2, n2, b, rf2, hc2, e2⟩
        · exact absurd (hseen ▸ hin2) hnot1
        · have hsig : a.retSig = b.retSig := by
            subst e1; subst e2
            exact next_sig_eq (a := a) (b := b) rfl rfl hr1 hr2 hlen hfin
          have hval : ∀ p1 p2, callVal W1 (plainFn W1 fuel1) p1 f [] [] = callVal W2 (plainFn W2 fuel2) p2 f [] [] :=
            fun p1 p2 => callVal_eq U hSS hW1 hW2 hext hc1 hc2 hsig _ _ _ _
          have hsv' : SeenVal W1 W2 (plainFn W1 fuel1) (plainFn W2 fuel2) (f :: s1.seen) := by
            intro f' hf' p1 p2
            rcases mem_cons.mp hf' with h | h
            · subst h; exact hval p1 p2
            · exact hsv f' h p1 p2
          obtain ⟨_, hk⟩ := one a b _ _ e1 e2 rfl rfl (by simp [hseen]) hsv'
          refine cont_eq W1 W2 _ _ env results its _ _ ?_ hk
          rw [plainItemRes_ref, plainItemRes_ref]
          exact hval _ _
    | load path line => exact absurd (hnl _ mem_cons_self) (by simp [Item.noLoad])
    | evalCall f line => exact absurd (hnl _ mem_cons_self) (by simp [Item.noLoad])

def bodyOutcome (W : World) (fn : Fn) (env : Env) : Except XErr (List RVal) → Except XErr RVal
  | .error e => .error e
  | .ok results => match fn.fails with
    | some kind => .error (.exc kind fn.name)
    | none => .ok (bodyValue W fn env results)

theorem plainFn_succ_fst (W : World) (fuel : Nat) (st : PSt) (fn : Fn) (env : Env) :
    (plainFn W (fuel + 1) st fn env).1 =
      bodyOutcome W fn env (plainItems W (plainFn W fuel) env { st with log := st.log ++ [fn.name] } [] fn.items).1 := by
  simp only [plainFn]
  generalize plainItems W (plainFn W fuel) env { st with log := st.log ++ [fn.name] } [] fn.items = r
  obtain ⟨v, q⟩ := r
  cases v with
  | error e => rfl
  | ok results =>
    simp only [bodyOutcome]
    cases fn.fails <;> rfl

theorem bodyOutcome_congr {W1 W2 : World} {fn1 fn2 : Fn} (hc : fn1.code = fn2.code) (hv : fn1.vars = fn2.vars)
    (hext : W1.extVersion = W2.extVersion) (env : Env) (r : Except XErr (List RVal)) :
    bodyOutcome W1 fn1 env r = bodyOutcome W2 fn2 env r := by
  have h1 : fn1.params = fn2.params := congrArg Code.params hc
  have h2 : fn1.tag = fn2.tag := congrArg Code.tag hc
  have h3 : fn1.fails = fn2.fails := congrArg Code.fails hc
  have h4 : fn1.usesExt = fn2.usesExt := congrArg Code.usesExt hc
  have h5 : fn1.ws = fn2.ws := congrArg Code.ws hc
  have h6 : fn1.name = fn2.name := congrArg Code.name hc
  cases r with
  | error e => rfl
  | ok results => simp only [bodyOutcome, bodyValue, h1, h2, h3, h4, h5, h6, hv, hext]

/-- **`sig_sound` (code part).** Two calls — in any two versions of the code from the universe — that the analysis
gives the same return signature, run on the same parameter values, return the same value (or raise the same
exception) under plain execution. No bound on the size or depth of the programs. -/
theorem sig_sound (U : Universe) (m : Nat) : ∀ fuel1, SS U m fuel1
  | 0 => by
    intro fuel2 W1 W2 refs1 refs2 stack1 stack2 fn1 fn2 ctx1 ctx2 env fis1 fis2 r1 r2 p1 p2 _ _ _ _ _ h1
    exact absurd h1 analyse_zero
  | k1 + 1 => by
    intro fuel2 W1 W2 refs1 refs2 stack1 stack2 fn1 fn2 ctx1 ctx2 env fis1 fis2 r1 r2 p1 p2 hW1 hW2 hext hU1 hU2 h1 h2 hs
    cases fuel2 with
    | zero => exact absurd h2 analyse_zero
    | succ k2 =>
      obtain ⟨ev1, io1, st1, b1, d1, ret1, a1⟩ := analyse_inv h1
      obtain ⟨ev2, io2, st2, b2, d2, ret2, a2⟩ := analyse_inv h2
      obtain ⟨hcode, hvars, hsubs⟩ := sig_code U a1 a2 hU1 hU2 hs
      have hitems : fn1.items = fn2.items := congrArg Code.items hcode
      have hname : fn1.name = fn2.name := congrArg Code.name hcode
      rw [plainFn_succ_fst, plainFn_succ_fst, bodyOutcome_congr hcode hvars hext]
      congr 1
      have hv2 := a2.hvisit
      rw [← hitems] at hv2
      rw [← hitems]
      exact lockstep U (sig_sound U m k1) hW1 hW2 hext fn1 fn2 _ _ stack1 stack2 env fn1.items (U.noLoads fn1 hU1)
        _ st1 _ st2 [] _ _ a1.hvisit hv2 rfl rfl (fun f hf => absurd hf (by simp)) hsubs

end Dds
