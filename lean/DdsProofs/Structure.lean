import DdsModel.Structure
/-!
# The guard of the implicit (call-order) edges of `_structure`

`reaches E a b` (the search added by the `fix:` commit for cycles of dotted edges) decides reachability in the edge list `E`
(`reaches_iff`), for every edge list: the number of rounds `E.length + 1` is always enough. Hence adding an edge `a → b` with
`a ≠ b` whose target does not reach its source keeps an acyclic edge list acyclic (`guarded_insert_acyclic`): the condition
under which `_structure` adds an implicit edge.
-/
namespace Dds
open List

/-- `b` can be reached from `a` along the edges (in zero or more steps) -/
inductive Reach (E : List (Sg × Sg)) : Sg → Sg → Prop
  | refl (a : Sg) : Reach E a a
  | step {a b c : Sg} : Reach E a b → (b, c) ∈ E → Reach E a c

theorem Reach.trans {E : List (Sg × Sg)} {a b c : Sg} (h1 : Reach E a b) (h2 : Reach E b c) : Reach E a c := by
  induction h2 with
  | refl => exact h1
  | step _ he ih => exact Reach.step ih he

theorem Reach.mono {E E' : List (Sg × Sg)} (hs : ∀ e ∈ E, e ∈ E') {a b : Sg} (h : Reach E a b) : Reach E' a b := by
  induction h with
  | refl => exact Reach.refl _
  | step _ he ih => exact Reach.step ih (hs _ he)

theorem mem_addNew' {α} [DecidableEq α] (l : List α) (a x : α) : x ∈ addNew l a ↔ x ∈ l ∨ x = a := by
  unfold addNew
  split
  · constructor
    · exact Or.inl
    · rintro (h | h)
      · exact h
      · subst h; assumption
  · simp

theorem addNew_nodup {α} [DecidableEq α] (l : List α) (a : α) (h : l.Nodup) : (addNew l a).Nodup := by
  unfold addNew
  split
  · exact h
  · rename_i hn
    rw [nodup_append]
    exact ⟨h, by simp, fun x hx y hy => by simp at hy; subst hy; exact fun e => hn (e ▸ hx)⟩

theorem addNew_ext {α} [DecidableEq α] (l : List α) (a : α) : ∃ d, addNew l a = l ++ d := by
  unfold addNew
  split
  · exact ⟨[], by simp⟩
  · exact ⟨[a], rfl⟩

/-! ## one round of the search -/

def stepFn (acc : List Sg) (e : Sg × Sg) : List Sg := if e.1 ∈ acc then addNew acc e.2 else acc

theorem reachStep_eq (E : List (Sg × Sg)) (S : List Sg) : reachStep E S = E.foldl stepFn S := rfl

theorem stepFn_ext (acc : List Sg) (e : Sg × Sg) : ∃ d, stepFn acc e = acc ++ d := by
  unfold stepFn
  split
  · exact addNew_ext _ _
  · exact ⟨[], by simp⟩

theorem foldl_ext : ∀ (E : List (Sg × Sg)) (S : List Sg), ∃ d, E.foldl stepFn S = S ++ d
  | [], S => ⟨[], by simp⟩
  | e :: E, S => by
    obtain ⟨d1, h1⟩ := stepFn_ext S e
    obtain ⟨d2, h2⟩ := foldl_ext E (stepFn S e)
    exact ⟨d1 ++ d2, by rw [foldl_cons, h2, h1, append_assoc]⟩

theorem foldl_nodup : ∀ (E : List (Sg × Sg)) (S : List Sg), S.Nodup → (E.foldl stepFn S).Nodup
  | [], _, h => h
  | e :: E, S, h => by
    simp only [foldl_cons]
    apply foldl_nodup E
    unfold stepFn
    split
    · exact addNew_nodup _ _ h
    · exact h

/-- every element added by a round is the target of an edge -/
theorem foldl_sub : ∀ (E : List (Sg × Sg)) (S : List Sg) (x : Sg), x ∈ E.foldl stepFn S → x ∈ S ∨ x ∈ E.map Prod.snd
  | [], _, _, h => Or.inl h
  | e :: E, S, x, h => by
    simp only [foldl_cons] at h
    rcases foldl_sub E _ x h with h1 | h1
    · unfold stepFn at h1
      split at h1
      · rcases (mem_addNew' _ _ _).mp h1 with h2 | h2
        · exact Or.inl h2
        · exact Or.inr (by simp [h2])
      · exact Or.inl h1
    · exact Or.inr (by simp only [map_cons, mem_cons]; exact Or.inr h1)

/-- a round is sound: whatever it adds is one edge away from something it had -/
theorem foldl_sound (E0 : List (Sg × Sg)) (a : Sg) : ∀ (E : List (Sg × Sg)) (S : List Sg), (∀ e ∈ E, e ∈ E0) →
    (∀ x ∈ S, Reach E0 a x) → ∀ x ∈ E.foldl stepFn S, Reach E0 a x
  | [], _, _, hS, x, hx => hS x hx
  | e :: E, S, hE, hS, x, hx => by
    simp only [foldl_cons] at hx
    refine foldl_sound E0 a E (stepFn S e) (fun e' he' => hE e' (mem_cons_of_mem _ he')) ?_ x hx
    intro y hy
    unfold stepFn at hy
    split at hy
    · rename_i h1
      rcases (mem_addNew' _ _ _).mp hy with h2 | h2
      · exact hS y h2
      · subst h2
        exact Reach.step (hS _ h1) (by have := hE e mem_cons_self; exact this)
    · exact hS y hy

/-- a round takes every edge that leaves what it had -/
theorem foldl_closes : ∀ (E : List (Sg × Sg)) (S : List Sg) (x y : Sg), x ∈ S → (x, y) ∈ E → y ∈ E.foldl stepFn S
  | [], _, _, _, _, h => by cases h
  | e :: E, S, x, y, hx, he => by
    simp only [foldl_cons]
    obtain ⟨d, hd⟩ := stepFn_ext S e
    have hx' : x ∈ stepFn S e := by rw [hd]; exact mem_append_left _ hx
    rcases mem_cons.mp he with h | h
    · -- this very edge: its target is added now, and kept by the rest of the round
      have hy : y ∈ stepFn S e := by
        subst h
        unfold stepFn
        simp only [hx, if_true]
        exact (mem_addNew' _ _ _).mpr (Or.inr rfl)
      obtain ⟨d2, hd2⟩ := foldl_ext E (stepFn S e)
      rw [hd2]; exact mem_append_left _ hy
    · exact foldl_closes E _ x y hx' h

/-! ## the rounds -/

theorem reachSet_sound (E : List (Sg × Sg)) (a : Sg) : ∀ (n : Nat) (S : List Sg), (∀ x ∈ S, Reach E a x) →
    ∀ x ∈ reachSet E n S, Reach E a x
  | 0, _, hS, x, hx => hS x hx
  | n + 1, S, hS, x, hx => by
    simp only [reachSet] at hx
    exact reachSet_sound E a n _ (foldl_sound E a E S (fun _ h => h) hS) x hx

/-- a set that a round does not change is closed under the edges -/
theorem closed_of_fixed (E : List (Sg × Sg)) (S : List Sg) (hfix : reachStep E S = S) {a b : Sg} (ha : a ∈ S)
    (h : Reach E a b) : b ∈ S := by
  induction h with
  | refl => exact ha
  | step _ he ih =>
    have := foldl_closes E S _ _ ih he
    rw [← reachStep_eq, hfix] at this
    exact this

theorem reachSet_fixed (E : List (Sg × Sg)) : ∀ (n : Nat) (S : List Sg), reachStep E S = S → reachSet E n S = S
  | 0, _, _ => rfl
  | n + 1, S, h => by simp only [reachSet, h]; exact reachSet_fixed E n S h

/-- after `n` rounds from `S`: either a fixed point has been reached, or the set has grown by at least `n` elements -/
theorem reachSet_progress (E : List (Sg × Sg)) : ∀ (n : Nat) (S : List Sg),
    reachStep E (reachSet E n S) = reachSet E n S ∨ S.length + n ≤ (reachSet E n S).length
  | 0, S => Or.inr (by simp [reachSet])
  | n + 1, S => by
    simp only [reachSet]
    obtain ⟨d, hd⟩ := foldl_ext E S
    rw [← reachStep_eq] at hd
    cases d with
    | nil =>
      simp only [append_nil] at hd
      left
      rw [hd, reachSet_fixed E n S hd]; exact hd
    | cons x d =>
      rcases reachSet_progress E n (reachStep E S) with h | h
      · exact Or.inl h
      · right
        rw [hd] at h ⊢
        simp only [length_append, length_cons] at h ⊢
        omega

theorem reachSet_nodup (E : List (Sg × Sg)) : ∀ (n : Nat) (S : List Sg), S.Nodup → (reachSet E n S).Nodup
  | 0, _, h => h
  | n + 1, S, h => by simp only [reachSet]; exact reachSet_nodup E n _ (foldl_nodup E S h)

theorem reachSet_sub (E : List (Sg × Sg)) : ∀ (n : Nat) (S : List Sg) (x : Sg), x ∈ reachSet E n S → x ∈ S ∨ x ∈ E.map Prod.snd
  | 0, _, _, h => Or.inl h
  | n + 1, S, x, h => by
    simp only [reachSet] at h
    rcases reachSet_sub E n _ x h with h1 | h1
    · exact foldl_sub E S x h1
    · exact Or.inr h1

theorem reachSet_mono (E : List (Sg × Sg)) : ∀ (n : Nat) (S : List Sg) (x : Sg), x ∈ S → x ∈ reachSet E n S
  | 0, _, _, h => h
  | n + 1, S, x, h => by
    simp only [reachSet]
    obtain ⟨d, hd⟩ := foldl_ext E S
    exact reachSet_mono E n _ x (by rw [reachStep_eq, hd]; exact mem_append_left _ h)

/-- `E.length + 1` rounds from one node reach a fixed point -/
theorem reachSet_saturates (E : List (Sg × Sg)) (a : Sg) :
    reachStep E (reachSet E (E.length + 1) [a]) = reachSet E (E.length + 1) [a] := by
  rcases reachSet_progress E (E.length + 1) [a] with h | h
  · exact h
  · exfalso
    have hnd := reachSet_nodup E (E.length + 1) [a] (by simp)
    have hsub : reachSet E (E.length + 1) [a] ⊆ a :: E.map Prod.snd := by
      intro x hx
      rcases reachSet_sub E _ _ x hx with h1 | h1
      · simp only [mem_singleton] at h1; subst h1; exact mem_cons_self
      · exact mem_cons_of_mem _ h1
    have := hnd.length_le_of_subset hsub
    simp only [length_cons, length_map, length_nil] at this h
    omega

/-- **`reaches` decides reachability**, for every edge list -/
theorem reaches_iff (E : List (Sg × Sg)) (a b : Sg) : reaches E a b = true ↔ Reach E a b := by
  unfold reaches
  simp only [decide_eq_true_eq]
  constructor
  · intro h
    exact reachSet_sound E a _ [a] (fun x hx => by simp only [mem_singleton] at hx; subst hx; exact Reach.refl _) b h
  · intro h
    exact closed_of_fixed E _ (reachSet_saturates E a) (reachSet_mono E _ [a] a (by simp)) h

/-! ## acyclicity is kept by a guarded insertion -/

/-- no node lies on a cycle (a path of at least one edge from the node to itself) -/
def Acyclic (E : List (Sg × Sg)) : Prop := ∀ x y, (x, y) ∈ E → ¬ Reach E y x

/-- a path in `(a, b) :: E` either avoids the new edge or goes through it -/
theorem reach_insert {E : List (Sg × Sg)} {a b x y : Sg} (h : Reach ((a, b) :: E) x y) :
    Reach E x y ∨ (Reach E x a ∧ Reach E b y) := by
  induction h with
  | refl => exact Or.inl (Reach.refl _)
  | step _ he ih =>
    rename_i p q
    rcases mem_cons.mp he with e | e
    · simp only [Prod.mk.injEq] at e
      obtain ⟨rfl, rfl⟩ := e
      rcases ih with h1 | ⟨h1, _⟩
      · exact Or.inr ⟨h1, Reach.refl _⟩
      · exact Or.inr ⟨h1, Reach.refl _⟩
    · rcases ih with h1 | ⟨h1, h2⟩
      · exact Or.inl (Reach.step h1 e)
      · exact Or.inr ⟨h1, Reach.step h2 e⟩

/-- **the guard of the implicit edges**: an edge `a → b` with `a ≠ b` whose target does not reach its source (as decided by
`reaches`) can be added to an acyclic edge list without creating a cycle -/
theorem guarded_insert_acyclic (E : List (Sg × Sg)) (a b : Sg) (hE : Acyclic E) (hne : a ≠ b)
    (hg : reaches E b a = false) : Acyclic ((a, b) :: E) := by
  have hnr : ¬ Reach E b a := fun h => by
    have := (reaches_iff E b a).mpr h
    rw [hg] at this; cases this
  intro x y hxy hyx
  rcases mem_cons.mp hxy with e | e
  · simp only [Prod.mk.injEq] at e
    obtain ⟨rfl, rfl⟩ := e
    -- the new edge x → y and a path y →* x
    rcases reach_insert hyx with h | ⟨h, _⟩
    · exact hnr h
    · exact hnr h
  · rcases reach_insert hyx with h | ⟨h1, h2⟩
    · exact hE x y e h
    · -- y →* a, b →* x, and the old edge x → y: then b →* a
      exact hnr (Reach.trans (Reach.step h2 e) h1)

/-! ## the loop that adds the implicit edges keeps the graph acyclic -/

theorem Acyclic.congr {E E' : List (Sg × Sg)} (h : ∀ e, e ∈ E ↔ e ∈ E') (hE : Acyclic E) : Acyclic E' := by
  intro x y hxy hyx
  exact hE x y ((h _).mpr hxy) (Reach.mono (fun e he => (h e).mpr he) hyx)

theorem mem_keys_kvSet {κ α} [DecidableEq κ] : ∀ (l : List (κ × α)) (k : κ) (v : α) (x : κ),
    x ∈ (kvSet l k v).map Prod.fst ↔ x ∈ l.map Prod.fst ∨ x = k
  | [], k, v, x => by simp [kvSet]
  | (k', v') :: l, k, v, x => by
    unfold kvSet
    by_cases h : k' = k
    · subst h; simp only [if_true, map_cons, mem_cons]
      constructor
      · rintro (h | h)
        · exact Or.inr h
        · exact Or.inl (Or.inr h)
      · rintro ((h | h) | h)
        · exact Or.inl h
        · exact Or.inr h
        · exact Or.inl h
    · simp only [h, if_false, map_cons, mem_cons, mem_keys_kvSet l k v x]
      constructor
      · rintro (h | h | h)
        · exact Or.inl (Or.inl h)
        · exact Or.inl (Or.inr h)
        · exact Or.inr h
      · rintro ((h | h) | h)
        · exact Or.inl h
        · exact Or.inr (Or.inl h)
        · exact Or.inr (Or.inr h)

theorem foldl_inv {α β} (P : β → Prop) (f : β → α → β) (hf : ∀ b a, P b → P (f b a)) : ∀ (l : List α) (b : β), P b → P (l.foldl f b)
  | [], _, h => h
  | a :: l, b, h => foldl_inv P f hf l (f b a) (hf b a h)

/-- **the loop over `start_nodes` × `l1` keeps the edges acyclic**: every implicit edge it records passed the guard -/
theorem implicitEdges_acyclic (subSet : List Sg) (startNodes l1 : List GNode) (st : SSt) (h : Acyclic st.edgeKeys) :
    Acyclic (implicitEdges subSet startNodes l1 st).edgeKeys := by
  unfold implicitEdges
  refine foldl_inv (fun st => Acyclic st.edgeKeys) _ (fun st n1 hst => ?_) startNodes st h
  refine foldl_inv (fun st => Acyclic st.edgeKeys) _ (fun st n2 hst => ?_) l1 st hst
  simp only
  -- the two initialisations of `node_deps` do not touch the edges
  have e1 : ∀ (s : SSt) (k : Sg), (if (kvGet s.nodeDeps k).isNone = true then { s with nodeDeps := kvSet s.nodeDeps k [] } else s).edgeKeys = s.edgeKeys := by
    intro s k; split <;> rfl
  generalize hs1 : (if (kvGet st.nodeDeps n1.sig).isNone = true then { st with nodeDeps := kvSet st.nodeDeps n1.sig [] } else st) = s1
  have hk1 : s1.edgeKeys = st.edgeKeys := by rw [← hs1]; exact e1 st n1.sig
  generalize hs2 : (if (kvGet s1.nodeDeps n2.sig).isNone = true then { s1 with nodeDeps := kvSet s1.nodeDeps n2.sig [] } else s1) = s2
  have hk2 : s2.edgeKeys = st.edgeKeys := by rw [← hs2, e1 s1 n2.sig, hk1]
  split
  · rename_i hc
    obtain ⟨hne, _, _, _, _, _, hg⟩ := hc
    have hac := guarded_insert_acyclic s2.edgeKeys n1.sig n2.sig (by rw [hk2]; exact hst) hne hg
    refine Acyclic.congr (fun e => ?_) hac
    simp only [SSt.edgeKeys, mem_cons, mem_append, mem_keys_kvSet]
    constructor
    · rintro (h | h | h)
      · exact Or.inl (Or.inr h)
      · exact Or.inl (Or.inl h)
      · exact Or.inr h
    · rintro ((h | h) | h)
      · exact Or.inr (Or.inl h)
      · exact Or.inl h
      · exact Or.inr (Or.inr h)
  · rw [hk2]; exact hst

end Dds
