import DdsProofs.Hash
/-! The two lemmas every signature proof uses: `hashCommut_perm` (order-insensitivity of
`dds_hash_commut` for distinct keys) and `hashCommut_inj` (equal results ⇒ the same pairs). -/
namespace Dds
open List

def keyLe (p q : String × Sg) : Prop := p.1 ≤ q.1

theorem insertKey_perm (p : String × Sg) : ∀ l, insertKey p l ~ p :: l
  | [] => by simp [insertKey]
  | q :: qs => by
    simp only [insertKey]
    split
    · exact Perm.refl _
    · exact ((insertKey_perm p qs).cons q).trans (Perm.swap p q qs)

theorem sortKeys_perm : ∀ l, sortKeys l ~ l
  | [] => by simp [sortKeys]
  | p :: ps => by
    simp only [sortKeys]
    exact (insertKey_perm p _).trans ((sortKeys_perm ps).cons p)

theorem insertKey_sorted (p : String × Sg) : ∀ l, l.Pairwise keyLe → (insertKey p l).Pairwise keyLe
  | [], _ => by simp [insertKey]
  | q :: qs, h => by
    simp only [insertKey]
    split
    · rename_i hle
      refine Pairwise.cons ?_ h
      intro a ha
      rcases mem_cons.mp ha with rfl | ha
      · exact hle
      · exact String.le_trans hle ((pairwise_cons.mp h).1 a ha)
    · rename_i hle
      have hqp : q.1 ≤ p.1 := (String.le_total _ _).resolve_left hle
      refine Pairwise.cons ?_ (insertKey_sorted p qs (pairwise_cons.mp h).2)
      intro a ha
      rcases mem_cons.mp ((insertKey_perm p qs).subset ha) with rfl | ha
      · exact hqp
      · exact (pairwise_cons.mp h).1 a ha

theorem sortKeys_sorted : ∀ l, (sortKeys l).Pairwise keyLe
  | [] => by simp [sortKeys]
  | p :: ps => by simp only [sortKeys]; exact insertKey_sorted p _ (sortKeys_sorted ps)

def KeysNodup (l : List (String × Sg)) : Prop := (l.map Prod.fst).Nodup

theorem KeysNodup.eq_of_key_eq {l : List (String × Sg)} (hn : KeysNodup l) {p q : String × Sg}
    (hp : p ∈ l) (hq : q ∈ l) (hk : p.1 = q.1) : p = q := by
  induction l with
  | nil => cases hp
  | cons a l ih =>
    unfold KeysNodup at hn
    simp only [map_cons, nodup_cons, mem_map, not_exists, not_and] at hn
    rcases mem_cons.mp hp with hp1 | hp1 <;> rcases mem_cons.mp hq with hq1 | hq1
    · rw [hp1, hq1]
    · subst hp1; exact absurd hk.symm (hn.1 _ hq1)
    · subst hq1; exact absurd hk (hn.1 _ hp1)
    · exact ih hn.2 hp1 hq1

theorem sortKeys_eq_of_perm {l₁ l₂ : List (String × Sg)} (h : l₁ ~ l₂) (hn : KeysNodup l₁) :
    sortKeys l₁ = sortKeys l₂ := by
  have hp : sortKeys l₁ ~ sortKeys l₂ := (sortKeys_perm l₁).trans (h.trans (sortKeys_perm l₂).symm)
  refine Perm.eq_of_pairwise (le := keyLe) ?_ (sortKeys_sorted _) (sortKeys_sorted _) hp
  intro a b ha hb hab hba
  have ha' : a ∈ l₁ := (sortKeys_perm l₁).subset ha
  have hb' : b ∈ l₁ := h.symm.subset ((sortKeys_perm l₂).subset hb)
  exact hn.eq_of_key_eq ha' hb' (String.le_antisymm hab hba)

theorem hashCommut_cons_cons (p q : String × Sg) (r : List (String × Sg)) :
    hashCommut (p :: q :: r) = some (.X (sortKeys (p :: q :: r))) := by
  obtain ⟨k, v⟩ := p
  simp [hashCommut]

/-- order-insensitivity of `dds_hash_commut` (distinct keys) -/
theorem hashCommut_perm {l₁ l₂ : List (String × Sg)} (h : l₁ ~ l₂) (hn : KeysNodup l₁) :
    hashCommut l₁ = hashCommut l₂ := by
  match l₁, l₂, h with
  | [], l₂, h => rw [h.symm.eq_nil]
  | [p], l₂, h => rw [(perm_singleton.mp h.symm)]
  | p :: q :: r, l₂, h =>
    match l₂, h with
    | [], h => exact absurd h.eq_nil (by simp)
    | [a], h => exact absurd (perm_singleton.mp h) (by simp)
    | a :: b :: c, h =>
      rw [hashCommut_cons_cons, hashCommut_cons_cons, sortKeys_eq_of_perm h hn]

theorem kvSg_inj {k k' : String} {v v' : Sg} (h : kvSg k v = kvSg k' v') : k = k' ∧ v = v' := by
  simp only [kvSg, Sg.H.injEq, cons.injEq, Part.lit.injEq, Part.sg.injEq, and_true] at h
  exact ⟨utf8_inj h.1, h.2⟩

/-- equal `dds_hash_commut` results ⇒ the same multiset of pairs -/
theorem hashCommut_inj {l₁ l₂ : List (String × Sg)} (h : hashCommut l₁ = hashCommut l₂) : l₁ ~ l₂ := by
  match l₁, l₂, h with
  | [], [], _ => exact Perm.refl _
  | [], [(_, _)], h => simp [hashCommut] at h
  | [], _ :: _ :: _, h => rw [hashCommut_cons_cons] at h; simp [hashCommut] at h
  | [(_, _)], [], h => simp [hashCommut] at h
  | _ :: _ :: _, [], h => rw [hashCommut_cons_cons] at h; simp [hashCommut] at h
  | [(k, v)], [(k', v')], h =>
    simp only [hashCommut, Option.some.injEq] at h
    obtain ⟨h1, h2⟩ := kvSg_inj h
    rw [h1, h2]
  | [(k, v)], _ :: _ :: _, h => rw [hashCommut_cons_cons] at h; simp [hashCommut, kvSg] at h
  | _ :: _ :: _, [(k, v)], h => rw [hashCommut_cons_cons] at h; simp [hashCommut, kvSg] at h
  | p :: q :: r, a :: b :: c, h =>
    rw [hashCommut_cons_cons, hashCommut_cons_cons] at h
    simp only [Option.some.injEq, Sg.X.injEq] at h
    exact (sortKeys_perm _).symm.trans (h ▸ sortKeys_perm _)

end Dds
