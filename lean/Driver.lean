import Drv.Common
import Drv.Args
import Drv.Store
import Drv.Pipeline
import Drv.Scope
open Lean

def handle (line : String) : String :=
  match Json.parse line with
  | .error _ => "{\"error\":\"bad-request\"}"
  | .ok j =>
    let r : Drv.R Json := do
      let op ← Drv.fldStr j "op"
      match op with
      | "hash" => Drv.opHash j
      | "auth" => Drv.opAuth j
      | "objkind" => Drv.opObjKind j
      | "overlap" => Drv.opOverlap j
      | "normpath" => Drv.opNormPath j
      | "storeops" => Drv.opStoreOps j
      | "loc" => Drv.opLoc j
      | "registry" => Drv.opRegistry j
      | "schedule" => Drv.opSchedule j
      | "abspath" => Drv.opAbsPath j
      | "cacheopt" => Drv.opCacheOpt j
      | "history" => Drv.opHistory j
      | "argctx" => Drv.opArgCtx j
      | "leafsig" => Drv.opLeafSig j
      | "scope" => Drv.opScope j
      | "order" => Drv.opOrder j
      | "imports" => Drv.opImports j
      | _ => .error s!"unknown op {op}"
    match r with
    | .ok o => o.compress
    | .error e => (Json.mkObj [("error", .str "bad-request"), ("detail", .str e)]).compress

partial def loop (h : IO.FS.Stream) (out : IO.FS.Stream) : IO Unit := do
  let line ← h.getLine
  if line.isEmpty then return ()
  let l := line.trimAscii.toString
  if l.isEmpty then loop h out else
  out.putStrLn (handle l)
  loop h out

def main : IO Unit := do
  let i ← IO.getStdin
  let o ← IO.getStdout
  loop i o
