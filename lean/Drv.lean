import Drv.Common
