import Drv.Common
import Drv.Args
import Drv.Store
import Drv.Pipeline
import Drv.Scope
