import Drv.Common
import Drv.Args
