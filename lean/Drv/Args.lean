import Drv.Common
open Lean
namespace Drv
open Dds

def decKind (s : String) : R ParamKind :=
  match s with
  | "POSITIONAL_OR_KEYWORD" => pure .posOrKw
  | "VAR_KEYWORD" => pure .varKw
  | "VAR_POSITIONAL" => pure .varPos
  | "KEYWORD_ONLY" => pure .kwOnly
  | "POSITIONAL_ONLY" => pure .posOnly
  | _ => .error s!"bad kind {s}"

def decParam (j : Json) : R Param := do
  let name ← fldStr j "name"
  let kind ← decKind (← fldStr j "kind")
  let d ← fld j "default"
  let default ← match d with
    | .null => pure none
    | v => do pure (some (← decVal v))
  pure { name, kind, default }

def decAstArg (j : Json) : R AstArg := do
  let t ← fldStr j "t"
  if t = "other" then pure .other else do pure (.const (← decVal j))

def decKw {α} (f : Json → R α) (j : Json) : R (String × α) := do
  match (← asArr j).toList with
  | [k, v] => pure (← asStr k, ← f v)
  | _ => .error "kw pair expected"

def argErrName : ArgErr → String
  | .notImplemented => "NotImplementedError"
  | .missingArg => "MISSING_ARG"
  | .hash e => errName e

def ctxJson (c : List (String × Option Sg)) : Json :=
  .arr (c.map (fun (n, h) => Json.arr #[.str n, match h with | some s => .str s.interp | none => .null])).toArray

def computeCtx (j : Json) : R (Except ArgErr (List (String × Option Sg))) := do
  let ps ← (← fldArr j "params").toList.mapM decParam
  let m ← fldNat j "max"
  let route ← fldStr j "route"
  if route = "direct" then
    let args ← (← fldArr j "args").toList.mapM decVal
    let kw ← (← fldArr j "kwargs").toList.mapM (decKw decVal)
    pure (getArgCtx m ps args kw)
  else
    let args ← (← fldArr j "args").toList.mapM decAstArg
    let kw ← (← fldArr j "kwargs").toList.mapM (decKw decAstArg)
    pure (getArgCtxAst m ps args kw)

/-- {"op":"argctx","route":"direct"|"ast","params":[…],"args":[…],"kwargs":[[n,v]…],"max":n} -/
def opArgCtx (j : Json) : R Json := do
  match (← computeCtx j) with
  | .ok c => pure (Json.mkObj [("ok", ctxJson c)])
  | .error e => pure (Json.mkObj [("err", .str (argErrName e))])

/-- signature of a function without dependencies or sub-calls: {"op":"leafsig", …argctx fields…, "lines":[…]} -/
def opLeafSig (j : Json) : R Json := do
  let lines ← asStrList (← fld j "lines")
  let m ← fldNat j "max"
  match (← computeCtx j) with
  | .error e => pure (Json.mkObj [("err", .str (argErrName e))])
  | .ok c =>
    match ddsHash m (.list (lines.map .str)) with
    | .error e => pure (Json.mkObj [("err", .str (errName e))])
    | .ok b =>
      match buildReturnSig (some b) ⟨c, none⟩ [] [] [] [] with
      | .ok (some s) => pure (Json.mkObj [("ok", .str s.interp)])
      | .ok none => pure (Json.mkObj [("err", .str "NONE")])
      | .error _ => pure (Json.mkObj [("err", .str "AssertionError")])

end Drv
