import Lean.Data.Json
import DdsModel
/-! JSON glue for the driver (not part of the model; nothing here is mentioned by a theorem). -/
open Lean
namespace Drv

abbrev R := Except String

def fld (j : Json) (k : String) : R Json :=
  match j.getObjVal? k with
  | .ok v => .ok v
  | .error _ => .error s!"missing field {k}"

def fldStr (j : Json) (k : String) : R String := do
  match (← fld j k) with
  | .str s => pure s
  | _ => .error s!"field {k}: string expected"

def fldArr (j : Json) (k : String) : R (Array Json) := do
  match (← fld j k) with
  | .arr a => pure a
  | _ => .error s!"field {k}: array expected"

def fldNat (j : Json) (k : String) : R Nat := do
  match (← fld j k) with
  | .num n => if n.exponent = 0 ∧ n.mantissa ≥ 0 then pure n.mantissa.toNat else .error s!"field {k}: nat expected"
  | .str s => match s.toNat? with
    | some n => pure n
    | none => .error s!"field {k}: nat expected"
  | _ => .error s!"field {k}: nat expected"

def fldBool (j : Json) (k : String) : R Bool := do
  match (← fld j k) with
  | .bool b => pure b
  | _ => .error s!"field {k}: bool expected"

def asStr : Json → R String
  | .str s => pure s
  | _ => .error "string expected"

def asArr : Json → R (Array Json)
  | .arr a => pure a
  | _ => .error "array expected"

def asStrList (j : Json) : R (List String) := do
  let a ← asArr j
  a.toList.mapM asStr

def hexByte (b : UInt8) : String :=
  String.ofList [Sha256.hexDigit (b.toNat / 16), Sha256.hexDigit (b.toNat % 16)]
def hexBytes (bs : List UInt8) : String := String.join (bs.map hexByte)

/-- decimal, or `0x…` / `-0x…` hex (how the harness sends huge ints) -/
def parseInt (s : String) : Option Int :=
  if s.startsWith "0x" then some (Int.ofNat (Sha256.hexToNat (s.drop 2).toString))
  else if s.startsWith "-0x" then some (- Int.ofNat (Sha256.hexToNat (s.drop 3).toString))
  else s.toInt?

open Dds in
partial def decVal (j : Json) : R PyVal := do
  let t ← fldStr j "t"
  match t with
  | "none" => pure .none
  | "bool" => pure (.bool (← fldBool j "v"))
  | "int" =>
      match parseInt (← fldStr j "v") with
      | some i => pure (.int i)
      | none => .error "bad int"
  | "float" => pure (.float (UInt64.ofNat (← fldNat j "v")))
  | "str" => pure (.str (← fldStr j "v"))
  | "list" => pure (.list (← (← fldArr j "v").toList.mapM decVal))
  | "tuple" => pure (.tuple (← (← fldArr j "v").toList.mapM decVal))
  | "dict" => pure (.dict (← (← fldArr j "v").toList.mapM decPair))
  | "odict" => pure (.odict (← (← fldArr j "v").toList.mapM decPair))
  | "dc" => pure (.dc (← (← fldArr j "v").toList.mapM decField))
  | "temporal" => pure (.temporal (← fldStr j "v"))
  | "ppath" => pure (.ppath (← fldStr j "v"))
  | "cpath" => pure (.cpath (← fldStr j "v"))
  | "unsupported" => pure (.unsupported (← fldStr j "v"))
  | _ => .error s!"bad value tag {t}"
where
  decPair (j : Json) : R (PyVal × PyVal) := do
    match (← asArr j).toList with
    | [k, v] => pure (← decVal k, ← decVal v)
    | _ => .error "pair expected"
  decField (j : Json) : R (String × PyVal) := do
    match (← asArr j).toList with
    | [k, v] => pure (← asStr k, ← decVal v)
    | _ => .error "field expected"

open Dds in
partial def cvalJson : CVal → Json
  | .atom bs => .str (hexBytes bs)
  | .seq xs => .arr (xs.map cvalJson).toArray

def errName : Dds.HashErr → String
  | .typeNotSupported => "TYPE_NOT_SUPPORTED"
  | .sequenceTooLong => "SEQUENCE_TOO_LONG"
  | .lowLevel => "LOW_LEVEL"

/-- {"op":"hash","v":…,"max":n} -/
def opHash (j : Json) : R Json := do
  let v ← decVal (← fld j "v")
  let m ← fldNat j "max"
  match Dds.ddsHash m v with
  | .ok h => pure (Json.mkObj [("ok", .str h.interp), ("canon", cvalJson (Dds.canonKF v))])
  | .error e => pure (Json.mkObj [("err", .str (errName e))])

/-- {"op":"auth","accepted":[…],"parts":[…]} -/
def opAuth (j : Json) : R Json := do
  let a ← asStrList (← fld j "accepted")
  let cp ← asStrList (← fld j "parts")
  pure (Json.mkObj [("ok", .bool (Dds.isAuthorizedPath a cp))])

/-- {"op":"objkind","accept_list":b,"accept_dict":b,"kind":"tuple"} -/
def opObjKind (j : Json) : R Json := do
  let al ← fldBool j "accept_list"
  let ad ← fldBool j "accept_dict"
  let k : Dds.ObjKind ← match (← fldStr j "kind") with
    | "scalar" => pure .scalar | "tuple" => pure .tuple | "function" => pure .function | "module" => pure .module
    | "list" => pure .list | "dict" => pure .dict | "noModule" => pure .noModule
    | "ofAccepted" => pure .ofAccepted | "ofForeign" => pure .ofForeign
    | s => .error s!"unknown kind {s}"
  let r := match Dds.objTracking al ad k with
    | .tracked => "tracked" | .ignored => "ignored" | .refused => "refused"
  pure (Json.mkObj [("ok", .str r)])

/-- {"op":"overlap","paths":[["a","b"],…]} -/
def opOverlap (j : Json) : R Json := do
  let ps ← (← fldArr j "paths").toList.mapM asStrList
  let r := Dds.nonTerminalLeaves ps
  pure (Json.mkObj [("ok", .arr (r.map (fun p => Json.arr (p.map Json.str).toArray)).toArray)])

/-- {"op":"normpath","p":"//a/b/"}: the one spelling of a path and its segments -/
def opNormPath (j : Json) : R Json := do
  let p ← fldStr j "p"
  pure (Json.mkObj [("ok", .str (Dds.normPath p)), ("segs", .arr ((Dds.pathSegs p).map Json.str).toArray)])

end Drv
