import Drv.Args
open Lean
namespace Drv
open Dds

def optStr (j : Json) (k : String) : R (Option String) :=
  match j.getObjVal? k with
  | .ok (.str s) => pure (some s)
  | .ok .null => pure none
  | .ok _ => .error s!"field {k}: string or null expected"
  | .error _ => pure none

def decNatList (j : Json) : R (List Nat) := do
  (← asArr j).toList.mapM (fun x => match x with
    | .num n => pure n.mantissa.toNat
    | _ => .error "nat expected")

def decRt (j : Json) : R (Option RtExpr) :=
  match j with
  | .null => pure none
  | _ => do
    let rs ← decNatList (← fld j "r")
    let ps ← asStrList (← fld j "p")
    let lits ← match j.getObjVal? "l" with
      | .ok l => asStrList l
      | .error _ => pure []
    pure (some { rs, ps, lits })

def decItem (j : Json) : R Item := do
  let k ← fldStr j "k"
  let line ← fldNat j "line"
  match k with
  | "call" =>
    match j.getObjVal? "args" with
    | .ok _ =>
      let args ← (← fldArr j "args").toList.mapM decAstArg
      let kwargs ← (← fldArr j "kwargs").toList.mapM (decKw decAstArg)
      let rtA ← (← fldArr j "rt").toList.mapM decRt
      let rtK ← (← fldArr j "rtkw").toList.mapM (decKw decRt)
      pure (.callArgs (← fldStr j "f") args kwargs rtA rtK line)
    | .error _ => pure (.call (← fldStr j "f") line)
  | "ref" => pure (.ref (← fldStr j "f") line)
  | "load" => pure (.load (← fldStr j "path") line)
  | "eval" => pure (.evalCall (← fldStr j "f") line)
  | "keep" =>
    let args ← (← fldArr j "args").toList.mapM decAstArg
    let kwargs ← (← fldArr j "kwargs").toList.mapM (decKw decAstArg)
    let rtA ← (← fldArr j "rt").toList.mapM decRt
    let rtK ← (← fldArr j "rtkw").toList.mapM (decKw decRt)
    pure (.keep (← fldStr j "path") (← fldStr j "f") args kwargs rtA rtK line)
  | _ => .error s!"bad item kind {k}"

def decNamedVal (j : Json) : R (String × PyVal) := do
  match (← asArr j).toList with
  | [k, v] => pure (← asStr k, ← decVal v)
  | _ => .error "named value expected"

def decFn (j : Json) : R Fn := do
  pure {
    name := ← fldStr j "name"
    lines := ← asStrList (← fld j "lines")
    tag := ← fldStr j "tag"
    params := ← (← fldArr j "params").toList.mapM decParam
    storePath := ← optStr j "store_path"
    vars := ← (← fldArr j "vars").toList.mapM decNamedVal
    exts := ← (← fldArr j "exts").toList.mapM decPairSS'
    items := ← (← fldArr j "items").toList.mapM decItem
    fails := ← optStr j "fails"
    usesExt := ← fldBool j "uses_ext"
    ws := match j.getObjVal? "ws" with
      | .ok (.bool b) => some b
      | _ => none
  }
where
  decPairSS' (j : Json) : R (String × String) := do
    match (← asArr j).toList with
    | [a, b] => pure (← asStr a, ← asStr b)
    | _ => .error "pair expected"

def decWorld (j : Json) : R World := do
  pure { funs := ← (← fldArr j "funs").toList.mapM decFn, extVersion := ← fldNat j "ext_version" }

def decStage (s : String) : R Stage :=
  match s with
  | "analysis" => pure .analysis
  | "store_inspect" => pure .storeInspect
  | "eval" => pure .eval
  | "store_commit" => pure .storeCommit
  | "path_commit" => pure .pathCommit
  | _ => .error s!"bad stage {s}"

def decRequest (j : Json) : R Request := do
  let e ← fld j "entry"
  let kind ← fldStr e "kind"
  let fn ← fldStr e "fun"
  let k : EntryKind ← match kind with
    | "eval" => pure EntryKind.eval
    | "keep" => do pure (EntryKind.keep (← fldStr e "path"))
    | "direct" => pure EntryKind.direct
    | _ => .error "bad entry kind"
  let args ← match e.getObjVal? "args" with
    | .ok (.arr a) => a.toList.mapM decVal
    | _ => pure []
  let kwargs ← match e.getObjVal? "kwargs" with
    | .ok (.arr a) => a.toList.mapM decNamedVal
    | _ => pure []
  let stages ← match j.getObjVal? "stages" with
    | .ok (.arr a) => a.toList.mapM (fun x => do decStage (← asStr x))
    | _ => pure allStages
  pure { kind := k, fn, args, kwargs, stages }

def ddsErrJson : DdsErr → Json
  | .evalInEval => dds "EVAL_IN_EVAL"
  | .circularCall => dds "CIRCULAR_CALL"
  | .overlappingPath => dds "OVERLAPPING_PATH"
  | .pathNotAbsolute => dds "PATH_NOT_ABSOLUTE"
  | .typeNotSupported => dds "TYPE_NOT_SUPPORTED"
  | .sequenceTooLong => dds "SEQUENCE_TOO_LONG"
  | .objectNotFound => dds "OBJECT_PATH_NOT_FOUND"
  | .missingArg => Json.mkObj [("kind", .str "dds"), ("code", .null)]
  | .missingPaths => Json.mkObj [("kind", .str "dds"), ("code", .null)]
  | .loadBeforeProduce => Json.mkObj [("kind", .str "dds"), ("code", .null)]
  | .assertion => exc "AssertionError"
  | .notImplemented => exc "NotImplementedError"
  | .keyError => exc "KeyError"
  | .outOfFuel => exc "MODEL_OUT_OF_FUEL"
where
  dds (c : String) : Json := Json.mkObj [("kind", .str "dds"), ("code", .str c)]
  exc (c : String) : Json := Json.mkObj [("kind", .str "exc"), ("cls", .str c)]

def xErrJson : XErr → Json
  | .dds e => ddsErrJson e
  | .exc kind token => Json.mkObj [("kind", .str "exc"), ("cls", .str kind), ("token", .str token)]

def rvalJson : RVal → Json
  | .str s => .str s
  | .py (.str s) => .str s
  | .py .none => .null
  | .py v => .str (pyRepr v)

def pathsJson (ps : List (String × Sg)) : Json :=
  .arr (ps.map (fun (p, s) => Json.arr #[.str p, .str s.interp])).toArray

structure HSt where
  world : Option World := none
  store : PStore := {}
  kept : LoadEnv := []

def stepHistory (m : Nat) (st : HSt) (j : Json) : R (HSt × Option Json) := do
  match j.getObjVal? "world" with
  | .ok w => do
    let W ← decWorld w
    pure ({ st with world := some W }, none)
  | .error _ =>
    match j.getObjVal? "run" with
    | .ok r => do
      let rq ← decRequest r
      match st.world with
      | none => .error "no world"
      | some W =>
        let o := evalStep m W st.store rq
        let (pv, pst) := plainRun W st.kept rq
        let kept' := (histStep m { store := st.store, kept := st.kept } W rq).kept
        let graphJ : Json := match analysisPhase m W st.store rq with
          | .ok (_, _, fis, _) =>
            let g := graphOf fis
            let pairs (l : List (String × String)) : Json := .arr (l.map (fun (a, b) => Json.arr #[.str a, .str b])).toArray
            Json.mkObj [("nodes", .arr (g.nodes.map Json.str).toArray), ("solid", pairs g.solid), ("dashed", pairs g.dashed)]
          | .error _ => .null
        let structJ : Json := match analysisPhase m W st.store rq with
          | .ok (_, _, fis, paths) =>
            let arity (n : String) : Nat := match W.find n with | some f => f.params.length | none => 0
            let refs := o.store.paths.filter (fun pk => (aget paths pk.1).isNone)
            match structureM arity refs fis with
            | .ok g =>
              let ty (t : EdgeTy) : String := match t with | .direct => "solid" | .indirect => "dashed" | .implicit => "dotted"
              Json.mkObj [("nodes", .arr (g.nodes.map Json.str).toArray),
                          ("edges", .arr (g.edges.map (fun e => Json.arr #[.str e.src, .str e.dst, .str (ty e.ty)])).toArray)]
            | .error e => Json.mkObj [("error", .str e)]
          | .error _ => .null
        let out := Json.mkObj [
          ("graph", graphJ),
          ("structure", structJ),
          ("value", match o.value with | .ok (some v) => rvalJson v | _ => .null),
          ("error", match o.value with | .error e => xErrJson e | .ok _ => .null),
          ("log", .arr (o.log.map Json.str).toArray),
          ("paths", pathsJson o.requested),
          ("committed", pathsJson o.store.paths),
          ("blobs", .arr (o.store.blobs.map (fun kv => Json.str kv.1.interp)).toArray),
          ("plain", match pv with | .ok v => rvalJson v | .error _ => .null),
          ("plain_error", match pv with | .error e => xErrJson e | .ok _ => .null),
          ("plain_log", .arr (pst.log.map Json.str).toArray)]
        pure ({ st with store := o.store, kept := kept' }, some out)
    | .error _ =>
      match j.getObjVal? "set_store" with
      | .ok (.str k) => pure ({ st with store := { noop := k = "noop" } }, none)
      | _ => .error "bad history step"

/-- {"op":"history","max":n,"steps":[{"world":…} | {"run":{"entry":…,"stages":[…]}} | {"set_store":"dict"|"noop"}]} -/
def opHistory (j : Json) : R Json := do
  let m ← fldNat j "max"
  let steps ← fldArr j "steps"
  let mut st : HSt := {}
  let mut outs : Array Json := #[]
  for s in steps do
    let (st', o) ← stepHistory m st s
    st := st'
    match o with
    | some o => outs := outs.push o
    | none => pure ()
  pure (Json.mkObj [("ok", .arr outs)])

end Drv
