import Drv.Common
import DdsModel.Order
import DdsModel.Imports
open Lean
namespace Drv
open Dds.Scope

partial def decExpr (j : Json) : R Expr := do
  let t ← fldStr j "t"
  match t with
  | "name" => pure (.name (← fldStr j "x"))
  | "const" => pure .const
  | "attr" => pure (.attr (← decExpr (← fld j "e")) (← fldStr j "a"))
  | "app" => pure (.app (← decExpr (← fld j "f")) (← decExpr (← fld j "a")))
  | "lam" => pure (.lam (← asStrList (← fld j "params")) (← decExpr (← fld j "body")))
  | "comp" => pure (.comp (← asStrList (← fld j "targets")) (← decExpr (← fld j "iter")) (← decExpr (← fld j "inner")))
  | "walrus" => pure (.walrus (← fldStr j "x") (← decExpr (← fld j "e")))
  | _ => .error s!"bad expr tag {t}"

partial def decStmt (j : Json) : R Stmt := do
  let t ← fldStr j "t"
  match t with
  | "expr" => pure (.expr (← decExpr (← fld j "e")))
  | "assign" => pure (.assign (← asStrList (← fld j "targets")) (← decExpr (← fld j "e")))
  | "del" => pure (.del (← fldStr j "x"))
  | "global" => pure (.global (← asStrList (← fld j "xs")))
  | "nonlocal" => pure (.nonlocal (← asStrList (← fld j "xs")))
  | "exceptAs" => pure (.exceptAs (← fldStr j "x"))
  | "defn" => pure (.defn (← fldStr j "name") (← asStrList (← fld j "params")) (← decExpr (← fld j "header")) (← decStmt (← fld j "body")))
  | "seq" => pure (.seq (← decStmt (← fld j "a")) (← decStmt (← fld j "b")))
  | "skip" => pure .skip
  | _ => .error s!"bad stmt tag {t}"

def strs (l : List String) : Json := .arr (l.map Json.str).toArray

/-- {"op":"scope","params":[…],"body":stmt} -/
def opScope (j : Json) : R Json := do
  let ps ← asStrList (← fld j "params")
  let b ← decStmt (← fld j "body")
  pure (Json.mkObj [("dds", strs (ddsNames ps b)), ("python", strs (pyGlobalReads ps b)), ("old", strs (oldNames ps b)),
    ("bound", strs (boundS b)), ("globals", strs (globalsS b))])

open Dds.Order in
partial def decCE (j : Json) : R CE := do
  let t ← fldStr j "t"
  match t with
  | "atom" => pure .atom
  | "call" => pure (.call (← fldNat j "id") (← decCE (← fld j "func")) (← decCE (← fld j "args")))
  | "pair" => pure (.pair (← decCE (← fld j "a")) (← decCE (← fld j "b")))
  | _ => .error s!"bad call-expression tag {t}"

def nats (l : List Nat) : Json := .arr (l.map (fun n => Json.num (JsonNumber.fromNat n))).toArray

/-- {"op":"order","e":call-expression} -/
def opOrder (j : Json) : R Json := do
  let e ← decCE (← fld j "e")
  pure (Json.mkObj [("dds", nats (Dds.Order.ddsOrder e)), ("python", nats (Dds.Order.pyOrder e)), ("old", nats (Dds.Order.oldOrder e)),
    ("simple", .bool (Dds.Order.funcSimple e))])

namespace Imp
open Dds.Imports

partial def decExpr (j : Json) : R Dds.Imports.Expr := do
  let t ← fldStr j "t"
  match t with
  | "name" => pure (Dds.Imports.Expr.name (← fldStr j "x"))
  | "const" => pure Dds.Imports.Expr.const
  | "attr" => pure (.attr (← decExpr (← fld j "e")) (← fldStr j "a"))
  | "app" => pure (.app (← decExpr (← fld j "f")) (← decExpr (← fld j "a")))
  | "lam" => pure (.lam (← asStrList (← fld j "params")) (← decExpr (← fld j "body")))
  | "comp" => pure (.comp (← asStrList (← fld j "targets")) (← decExpr (← fld j "iter")) (← decExpr (← fld j "inner")))
  | _ => .error s!"bad expr tag {t}"

partial def decStmt (j : Json) : R Dds.Imports.Stmt := do
  let t ← fldStr j "t"
  match t with
  | "expr" => pure (.expr (← decExpr (← fld j "e")))
  | "assign" => pure (.assign (← asStrList (← fld j "targets")) (← decExpr (← fld j "e")))
  | "imp" => pure (.imp (← fldStr j "x") (← asStrList (← fld j "p")))
  | "global" => pure (.global (← asStrList (← fld j "xs")))
  | "defn" => pure (.defn (← fldStr j "name") (← asStrList (← fld j "params")) (← decExpr (← fld j "header")) (← decStmt (← fld j "body")))
  | "seq" => pure (.seq (← decStmt (← fld j "a")) (← decStmt (← fld j "b")))
  | "skip" => pure .skip
  | _ => .error s!"bad stmt tag {t}"

def refStr : Dds.Imports.Ref → String
  | .glob x => "g:" ++ x
  | .path p => "p:" ++ "/".intercalate p

def refs (l : List Dds.Imports.Ref) : Json := .arr (l.map (fun r => Json.str (refStr r))).toArray

end Imp

/-- {"op":"imports","params":[…],"body":stmt,"accepted":[root packages]} -/
def opImports (j : Json) : R Json := do
  let ps ← asStrList (← fld j "params")
  let b ← Imp.decStmt (← fld j "body")
  let accepted ← asStrList (← fld j "accepted")
  let acc : Dds.Imports.Path → Bool := fun p => match p with | [] => false | h :: _ => accepted.contains h
  let hyp := Dds.Imports.stmtOK acc b && Dds.Imports.impsOK acc (Dds.Imports.impsS b)
  pure (Json.mkObj [
    ("analysis", match Dds.Imports.analyse acc ps b with | none => Json.null | some l => Imp.refs l),
    ("python", Imp.refs (Dds.Imports.pyRefs ps b)),
    ("hypotheses", .bool hyp),
    ("unresolved", Imp.refs (Dds.Imports.unresolvedRefs ps b)),
    ("text_order", Imp.refs (Dds.Imports.textRefs acc ps b)),
    ("chain", Imp.refs (Dds.Imports.chainRefs acc ps b))])

end Drv
