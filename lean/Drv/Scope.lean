import Drv.Common
import DdsModel.Order
open Lean
namespace Drv
open Dds.Scope

partial def decExpr (j : Json) : R Expr := do
  let t ← fldStr j "t"
  match t with
  | "name" => pure (.name (← fldStr j "x"))
  | "const" => pure .const
  | "attr" => pure (.attr (← decExpr (← fld j "e")) (← fldStr j "a"))
  | "app" => pure (.app (← decExpr (← fld j "f")) (← decExpr (← fld j "a")))
  | "lam" => pure (.lam (← asStrList (← fld j "params")) (← decExpr (← fld j "body")))
  | "comp" => pure (.comp (← asStrList (← fld j "targets")) (← decExpr (← fld j "iter")) (← decExpr (← fld j "inner")))
  | "walrus" => pure (.walrus (← fldStr j "x") (← decExpr (← fld j "e")))
  | _ => .error s!"bad expr tag {t}"

partial def decStmt (j : Json) : R Stmt := do
  let t ← fldStr j "t"
  match t with
  | "expr" => pure (.expr (← decExpr (← fld j "e")))
  | "assign" => pure (.assign (← asStrList (← fld j "targets")) (← decExpr (← fld j "e")))
  | "del" => pure (.del (← fldStr j "x"))
  | "global" => pure (.global (← asStrList (← fld j "xs")))
  | "nonlocal" => pure (.nonlocal (← asStrList (← fld j "xs")))
  | "exceptAs" => pure (.exceptAs (← fldStr j "x"))
  | "defn" => pure (.defn (← fldStr j "name") (← asStrList (← fld j "params")) (← decExpr (← fld j "header")) (← decStmt (← fld j "body")))
  | "seq" => pure (.seq (← decStmt (← fld j "a")) (← decStmt (← fld j "b")))
  | "skip" => pure .skip
  | _ => .error s!"bad stmt tag {t}"

def strs (l : List String) : Json := .arr (l.map Json.str).toArray

/-- {"op":"scope","params":[…],"body":stmt} -/
def opScope (j : Json) : R Json := do
  let ps ← asStrList (← fld j "params")
  let b ← decStmt (← fld j "body")
  pure (Json.mkObj [("dds", strs (ddsNames ps b)), ("python", strs (pyGlobalReads ps b)), ("old", strs (oldNames ps b)),
    ("bound", strs (boundS b)), ("globals", strs (globalsS b))])

open Dds.Order in
partial def decCE (j : Json) : R CE := do
  let t ← fldStr j "t"
  match t with
  | "atom" => pure .atom
  | "call" => pure (.call (← fldNat j "id") (← decCE (← fld j "func")) (← decCE (← fld j "args")))
  | "pair" => pure (.pair (← decCE (← fld j "a")) (← decCE (← fld j "b")))
  | _ => .error s!"bad call-expression tag {t}"

def nats (l : List Nat) : Json := .arr (l.map (fun n => Json.num (JsonNumber.fromNat n))).toArray

/-- {"op":"order","e":call-expression} -/
def opOrder (j : Json) : R Json := do
  let e ← decCE (← fld j "e")
  pure (Json.mkObj [("dds", nats (Dds.Order.ddsOrder e)), ("python", nats (Dds.Order.pyOrder e)), ("old", nats (Dds.Order.oldOrder e)),
    ("simple", .bool (Dds.Order.funcSimple e))])

end Drv
