import Drv.Common
open Lean
namespace Drv
open Dds

def decValJ : Json → R Val
  | .null => pure none
  | .num n => pure (some n.mantissa.toNat)
  | _ => .error "val expected"

def decPairSS (j : Json) : R (String × String) := do
  match (← asArr j).toList with
  | [a, b] => pure (← asStr a, ← asStr b)
  | _ => .error "pair expected"

def decStoreOp (j : Json) : R StoreOp := do
  match (← asArr j).toList with
  | [.str "store", .str k, v] => pure (.store k (← decValJ v))
  | [.str "has", .str k] => pure (.has k)
  | [.str "fetch", .str k] => pure (.fetch k)
  | [.str "sync", ps] => pure (.sync (← (← asArr ps).toList.mapM decPairSS))
  | [.str "fetch_paths", ps] => pure (.fetchPaths (← asStrList ps))
  | _ => .error "bad store op"

def valJson : Val → Json
  | none => .null
  | some n => .num n

def outJson : Out → Json
  | .unit => .str "unit"
  | .bool b => .bool b
  | .val v => Json.mkObj [("val", valJson v)]
  | .paths ps => Json.mkObj [("paths", .arr (ps.map (fun (p, k) => Json.arr #[.str p, .str k])).toArray)]
  | .err => .str "err"

/-- run ops on the LRU wrapper over the dictionary, reporting the cache size after every op -/
def runLru (cap : Nat) : Lru Dict → List StoreOp → List (Out × Nat)
  | _, [] => []
  | s, op :: ops =>
    let (s', o) := Lru.step cap Dict.step s op
    (o, s'.cache.length) :: runLru cap s' ops

/-- {"op":"storeops","kind":"dict"|"lru","cap":n,"ops":[…]} -/
def opStoreOps (j : Json) : R Json := do
  let kind ← fldStr j "kind"
  let ops ← (← fldArr j "ops").toList.mapM decStoreOp
  match kind with
  | "dict" =>
    let (_, outs) := runOps Dict.step {} ops
    pure (Json.mkObj [("ok", .arr (outs.map outJson).toArray)])
  | "lru" =>
    let cap ← fldNat j "cap"
    let r := runLru cap { cache := [], inner := {} } ops
    pure (Json.mkObj [("ok", .arr (r.map (fun x => outJson x.1)).toArray),
                      ("sizes", .arr (r.map (fun x => Json.num x.2)).toArray)])
  | "local" =>
    let (_, outs) := runOps LocalSt.step {} ops
    pure (Json.mkObj [("ok", .arr (outs.map outJson).toArray)])
  | "local_lru" =>
    let cap ← fldNat j "cap"
    let (_, outs) := runOps (Lru.step cap LocalSt.step) { cache := [], inner := {} } ops
    pure (Json.mkObj [("ok", .arr (outs.map outJson).toArray)])
  | "dbfs" =>
    let ct ← match (← fldStr j "commit") with
      | "FULL" => pure CommitType.full
      | "LINK_ONLY" => pure CommitType.linkOnly
      | "NO_COMMIT" => pure CommitType.noCommit
      | c => .error s!"bad commit type {c}"
    let (s, outs) := runOps (DbfsSt.step ct Dds.encVal Dds.decVal) {} ops
    pure (Json.mkObj [("ok", .arr (outs.map outJson).toArray),
      ("data", .arr (s.data.map (fun kv => Json.str kv.1)).toArray),
      ("redirect", .arr (s.redirect.map (fun kv => Json.arr #[.str kv.1, .str kv.2])).toArray)])
  | _ => .error s!"bad store kind {kind}"

/-- {"op":"cacheopt","v": null | true | false | int} -/
def opCacheOpt (j : Json) : R Json := do
  let v ← fld j "v"
  let o : CacheOpt ← match v with
    | .null => pure CacheOpt.none
    | .bool b => pure (CacheOpt.bool b)
    | .str s => match s.toInt? with
      | some i => pure (CacheOpt.int i)
      | none => .error "bad int"
    | _ => .error "bad cache option"
  pure (Json.mkObj [("ok", match decodeCacheObjects o with | some n => .str (toString n) | none => .null)])

/-- {"op":"loc","path":p}: the location of a DDS path below the data directory -/
def opLoc (j : Json) : R Json := do
  let p ← fldStr j "path"
  match localLoc p with
  | .ok l => pure (Json.mkObj [("ok", .arr (l.map Json.str).toArray)])
  | .error _ => pure (Json.mkObj [("err", .str "STORE_PATH_NOT_SUPPORTED")])

def decCodec (j : Json) : R Codec := do
  pure { ref := ← fldStr j "ref", impl := ← fldStr j "impl", types := ← asStrList (← fld j "types") }

/-- {"op":"registry","ops":[["add_codec"|"add_file_codec", codec]…],"queries":[[type|null, ref|null]…]} -/
def opRegistry (j : Json) : R Json := do
  let ops ← (← fldArr j "ops").toList.mapM (fun o => do
    match (← asArr o).toList with
    | [.str "add_codec", c] => do pure (RegOp.addCodec (← decCodec c))
    | [.str "add_file_codec", c] => do pure (RegOp.addFileCodec (← decCodec c))
    | _ => .error "bad registry op")
  let reg := ops.foldl Registry.apply {}
  let qs ← (← fldArr j "queries").toList.mapM (fun q => do
    match (← asArr q).toList with
    | [t, r] =>
      let ty := match t with | .str s => some s | _ => none
      let rf := match r with | .str s => some s | _ => none
      pure (match reg.getCodec ty rf with
        | .ok c => Json.str c.impl
        | .error .protocolNotFound => Json.str "ERR:PROTOCOL_NOT_FOUND"
        | .error .typeNotRegistered => Json.str "ERR:NO_CODE")
    | _ => .error "bad query")
  pure (Json.mkObj [("ok", .arr qs.toArray)])

end Drv

namespace Drv
open Dds Lean

def decReq (j : Json) : R Req := do
  match (← asArr j).toList with
  | [.str "store", .str k] => pure (.store k)
  | [.str "sync", l, .str k] => pure (.sync (← asStrList l) k)
  | _ => .error "bad request"

def diskJson (d : Disk) : Json :=
  Json.mkObj [("blobs", .arr (d.blobs.map (fun kv => Json.str kv.1)).toArray),
              ("metas", .arr (d.metas.map (fun kv => Json.str kv.1)).toArray),
              ("links", .arr (d.links.map (fun kv => Json.arr #[.arr (kv.1.map Json.str).toArray, .str kv.2])).toArray)]

/-- {"op":"schedule","init":{"blobs":[k…],"links":[[loc,k]…]},"procs":[[req…]…],"schedule":[i…]}:
the published part of the disk after every step of the schedule -/
def opSchedule (j : Json) : R Json := do
  let init ← fld j "init"
  let ks ← asStrList (← fld init "blobs")
  let ls ← (← fldArr init "links").toList.mapM (fun x => do
    match (← asArr x).toList with
    | [l, .str k] => pure ((← asStrList l), k)
    | _ => .error "bad link")
  let V : Truth := { content := fun k => (k ++ "#content").toUTF8.data.toList, metaOf := fun _ => "local.string" }
  let d0 : Disk := { blobs := ks.map (fun k => (k, V.content k)), metas := ks.map (fun k => (k, V.metaOf k)), links := ls }
  let procs ← (← fldArr j "procs").toList.mapM (fun p => do (← asArr p).toList.mapM decReq)
  let ps : List Proc := (procs.zipIdx).map (fun (rs, i) => { id := i, reqs := rs })
  let sched ← decNatList' (← fld j "schedule")
  let mut s : Sys := ⟨d0, ps⟩
  let mut outs : Array Json := #[diskJson s.disk]
  for i in sched do
    s := s.stepAt V i
    outs := outs.push (diskJson s.disk)
  pure (Json.mkObj [("ok", .arr outs), ("done", .arr (s.procs.map (fun p => Json.bool (p.idx ≥ p.reqs.length))).toArray)])
where
  decNatList' (j : Json) : R (List Nat) := do
    (← asArr j).toList.mapM (fun x => match x with
      | .num n => pure n.mantissa.toNat
      | _ => .error "nat expected")

/-- {"op":"abspath","cwd":"/a/b","path":p} -/
def opAbsPath (j : Json) : R Json := do
  let cwd ← fldStr j "cwd"
  let p ← fldStr j "path"
  let segs := absPath (pathSegs cwd) p
  pure (Json.mkObj [("ok", .str ("/" ++ "/".intercalate segs))])

end Drv
