import Generated.Facts
