/-! GENERATED on every run by harness/extract_facts.py from the code imported from /repo. Do not edit. -/
namespace Dds.Facts

/-- default of the option `hash.max_sequence_size` -/
def maxSequenceSizeDefault : Nat := 10000

/-- `ProcessingStage.all_phases()`: names, in order -/
def stageOrder : List String := ["ANALYSIS", "STORE_INSPECT", "EVAL", "STORE_COMMIT", "PATH_COMMIT"]
/-- the enum values, in the same order -/
def stageValues : List String := ["analysis", "store_inspect", "eval", "store_commit", "path_commit"]
/-- all members of the enum -/
def stageMembers : List String := ["ANALYSIS", "STORE_INSPECT", "EVAL", "STORE_COMMIT", "PATH_COMMIT"]

/-- `DDSErrorCode`: (name, value) -/
def errorCodes : List (String × Nat) := [("EVAL_IN_EVAL", 1), ("CIRCULAR_CALL", 2), ("UNKNOWN_AST_NODE", 3), ("MODULE_NOT_FOUND", 4), ("FUNCTION_NO_MODULE", 5), ("PROTOCOL_NOT_FOUND", 6), ("TYPE_NOT_SUPPORTED", 7), ("STORE_PATH_NOT_FOUND", 8), ("PATH_NOT_ABSOLUTE", 9), ("UNSUPPORTED_CALLABLE_TYPE", 10), ("AUTHORIZED_TYPE_NOT_UNDERSTOOD", 11), ("OBJECT_PATH_NOT_FOUND", 12), ("CONSTRUCT_NOT_SUPPORTED", 13), ("STORE_PATH_NOT_SUPPORTED", 14), ("ARG_IN_DATA_FUNCTION", 15), ("OVERLAPPING_PATH", 16), ("UNKNOWN_OPTION", 17), ("SEQUENCE_TOO_LONG", 18)]

/-- local registry: python type ↦ reference of the codec that writes it -/
def localTypeCodec : List (String × String) := [("str", "local.string"), ("bytes", "local.bytes"), ("bytearray", "local.bytes"), ("NoneType", "local.pickle"), ("int", "local.pickle"), ("dict", "local.pickle"), ("list", "local.pickle"), ("object", "local.pickle"), ("OrderedDict", "local.pickle"), ("pandas.DataFrame", "local.pandas")]
/-- local registry: protocol reference ↦ class of the codec that reads it -/
def localRefCodec : List (String × String) := [("default.pandas_local", "PandasFileCodec"), ("local.bytes", "BytesFileCodec"), ("local.pandas", "PandasFileCodec"), ("local.pickle", "PickleLocalFileCodec"), ("local.string", "StringLocalFileCodec")]
/-- dbfs registry: python type ↦ reference of the codec that writes it -/
def dbfsTypeCodec : List (String × String) := [("str", "local.string"), ("bytes", "local.bytes"), ("bytearray", "local.bytes"), ("NoneType", "local.pickle"), ("int", "local.pickle"), ("dict", "local.pickle"), ("list", "local.pickle"), ("object", "local.pickle"), ("OrderedDict", "local.pickle"), ("pandas.DataFrame", "local.pandas")]
/-- dbfs registry: protocol reference ↦ class of the codec that reads it -/
def dbfsRefCodec : List (String × String) := [("dbfs.bytes", "BytesFileCodec"), ("dbfs.pickle", "PickleLocalFileCodec"), ("dbfs.pyspark", "PySparkDatabricksCodec"), ("dbfs.string", "StringLocalFileCodec"), ("local.bytes", "BytesFileCodec"), ("local.pandas", "PandasFileCodec"), ("local.pickle", "PickleLocalFileCodec"), ("local.string", "StringLocalFileCodec")]

/-- `set_store('dbfs', commit_type=s)`: spelling ↦ resulting `CommitType` member (none: rejected) -/
def commitTypeSpellings : List (String × Option String) := [("full", some "FULL"), ("links_only", some "LINK_ONLY"), ("none", some "NO_COMMIT"), ("FULL", some "FULL"), ("LINK_ONLY", some "LINK_ONLY"), ("NO_COMMIT", some "NO_COMMIT"), ("link_only", some "LINK_ONLY"), ("no_commit", some "NO_COMMIT"), ("Links_Only", some "LINK_ONLY"), ("bogus", none)]
def commitTypeDefault : String := "FULL"
def commitTypeMembers : List String := ["NO_COMMIT", "LINK_ONLY", "FULL"]

/-- every key (or key prefix, marked `*`) of a signature pair in dds/introspect.py -/
def sigKeys : List String := ["arg_*", "arg_context", "body_sig", "dep_*", "ext_dep_*", "ext_variable_*", "fun_dep_*", "function_input_hash", "function_inter_hash"]
/-- the sentinel strings of dds_hash -/
def hashSentinels : List String := ["__DDS_INT__", "__DDS_NONE__"]

end Dds.Facts
