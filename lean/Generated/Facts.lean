namespace Dds.Facts
end Dds.Facts
