/-! GENERATED on every run by harness/extract_facts.py from the code imported from /repo. Do not edit. -/
namespace Dds.Facts

/-- default of the option `hash.max_sequence_size` -/
def maxSequenceSizeDefault : Nat := 10000

end Dds.Facts
