#!/bin/bash
# runs, for every stored breaking change, the check of its property against /repo with the change applied; prints one line each
cd /verif
for d in seeded/*/; do
  n=$(basename $d)
  id=$(python3 -c "import json,sys; print(json.load(open('$d/meta.json'))['property'])")
  if ! git -C /repo apply --check /verif/$d/patch.diff 2>/dev/null; then echo "$n $id PATCH-DOES-NOT-APPLY"; continue; fi
  git -C /repo apply /verif/$d/patch.diff
  out=$(./check $id 2>&1 | grep -c "^VIOLATION")
  git -C /repo checkout -- .
  echo "$n $id detected=$out"
done
