#!/bin/bash
# usage: tools/all_seeded_parallel.sh <workers> "<seeds>" [name-prefix]   detection matrix over scratch worktrees of /repo (DDS_REPO),
# /repo untouched. The stored changes are dealt to the workers by property, so that two workers rarely run the same check at once
# (a check rewrites its evidence file); the verdict is read from the VIOLATION lines. Output: one line per stored change.
cd /verif
N=${1:-4}; SEEDS=${2:-"1"}; PREFIX=${3:-}
HEAD=$(git -C /repo rev-parse HEAD)
worker() {
  k=$1; W=/tmp/mutrepo_w$k
  [ -d $W ] || git -C /repo worktree add -q --detach $W $HEAD
  git -C $W reset -q --hard; git -C $W checkout -q --detach $HEAD
  for d in seeded/$PREFIX*/; do
    n=$(basename $d); [ -f $d/meta.json ] || continue
    id=$(python3 -c "import json; print(json.load(open('$d/meta.json'))['property'])")
    [ $(( 10#${id#C} % N )) -eq $k ] || continue
    if python3 -c "import json,sys; sys.exit(0 if json.load(open('$d/meta.json')).get('obsolete') else 1)"; then echo "$n $id OBSOLETE"; continue; fi
    git -C $W checkout -q -- .
    if ! git -C $W apply --check /verif/$d/patch.diff 2>/dev/null; then echo "$n $id PATCH-DOES-NOT-APPLY"; continue; fi
    git -C $W apply /verif/$d/patch.diff 2>/dev/null
    cw=$(python3 -c "import json; print(' '.join(json.load(open('$d/meta.json')).get('check_with') or ['$id']))")
    r=""
    for s in $SEEDS; do for c in $cw; do
      out=$(DDS_REPO=$W VERIF_SEED=$s ./check $c 2>&1 | grep -c "^VIOLATION"); r="$r $c/$s:$out"
    done; done
    git -C $W checkout -q -- .
    echo "$n $id$r"
  done
}
for k in $(seq 0 $((N-1))); do worker $k & done
wait
for k in $(seq 0 $((N-1))); do git -C /repo worktree remove --force /tmp/mutrepo_w$k 2>/dev/null; done
git -C /repo worktree prune
