#!/bin/bash
# usage: tools/all_seeded_scratch.sh "<seeds>"   detection matrix over a scratch worktree (DDS_REPO), /repo untouched
cd /verif
SEEDS=${1:-"0 1 2"}
[ -d /tmp/mutrepo ] || git -C /repo worktree add -q --detach /tmp/mutrepo HEAD
git -C /tmp/mutrepo reset -q --hard 2>/dev/null; git -C /tmp/mutrepo checkout -q --detach $(git -C /repo rev-parse HEAD) 2>/dev/null
for d in seeded/*/; do
  n=$(basename $d)
  [ -f $d/meta.json ] || continue
  id=$(python3 -c "import json,sys; print(json.load(open('$d/meta.json'))['property'])")
  if python3 -c "import json,sys; sys.exit(0 if json.load(open('$d/meta.json')).get('obsolete') else 1)"; then echo "$n $id OBSOLETE"; continue; fi
  git -C /tmp/mutrepo checkout -q -- .
  if ! git -C /tmp/mutrepo apply --check /verif/$d/patch.diff 2>/dev/null; then echo "$n $id PATCH-DOES-NOT-APPLY"; continue; fi
  git -C /tmp/mutrepo apply /verif/$d/patch.diff
  r=""
  # the check(s) that catch the change: the property's own, unless the meta names others (check_with)
  cw=$(python3 -c "import json; print(' '.join(json.load(open('$d/meta.json')).get('check_with') or ['$id']))")
  for s in $SEEDS; do
    for c in $cw; do
      out=$(DDS_REPO=/tmp/mutrepo VERIF_SEED=$s ./check $c 2>&1 | grep -c "^VIOLATION")
      r="$r $c/$s:$out"
    done
  done
  git -C /tmp/mutrepo checkout -q -- .
  echo "$n $id$r"
done
