#!/bin/bash
# usage: tools/all_seeded_scratch.sh "<seeds>"   detection matrix over a scratch worktree (DDS_REPO), /repo untouched
cd /verif
SEEDS=${1:-"0 1 2"}
[ -d /tmp/mutrepo ] || git -C /repo worktree add -q --detach /tmp/mutrepo HEAD
git -C /tmp/mutrepo checkout -q --detach $(git -C /repo rev-parse HEAD) 2>/dev/null
for d in seeded/*/; do
  n=$(basename $d)
  [ -f $d/meta.json ] || continue
  id=$(python3 -c "import json,sys; print(json.load(open('$d/meta.json'))['property'])")
  git -C /tmp/mutrepo checkout -q -- .
  if ! git -C /tmp/mutrepo apply --check /verif/$d/patch.diff 2>/dev/null; then echo "$n $id PATCH-DOES-NOT-APPLY"; continue; fi
  git -C /tmp/mutrepo apply /verif/$d/patch.diff
  r=""
  for s in $SEEDS; do
    out=$(DDS_REPO=/tmp/mutrepo VERIF_SEED=$s ./check $id 2>&1 | grep -c "^VIOLATION")
    r="$r $s:$out"
  done
  git -C /tmp/mutrepo checkout -q -- .
  echo "$n $id$r"
done
