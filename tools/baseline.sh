#!/bin/sh
# the repository's pinned test-suite with the verification guard OFF (59 stable tests; test_sklearn needs the network and always fails)
unset DDS_PY_VERIF
cd /repo && /venv/bin/python -m pytest -ra -q -p no:cacheprovider --timeout=900 --continue-on-collection-errors "$@"
