#!/usr/bin/env python3
"""Regenerates MANIFEST.json from the table below (kept here so the manifest stays consistent)."""
import json, os
ROOT = os.path.dirname(os.path.dirname(os.path.abspath(__file__)))
ALL = ["C%02d" % i for i in range(1, 20)]

CHECKS = {
 "C05": dict(
    text="Kernel-checked theorems over the Lean model of dds_hash for ALL values (any nesting/size): totality (structural recursion), only coded errors (coded), exact characterisation of collisions (collide_iff: equal signature iff equal canonical form), injectivity on scalars, the documented identifications; the full statement is false on the code (5 structural collision families) - negation witnesses are proved and replayed on the real code as known findings. Model tied to the code by byte-exact correspondence on ~5000 (quick) values incl. boundary cases.",
    note="SHA-256 idealisation (distinct symbolic digests => distinct bytes; user strings never spell a digest - the one family where they do is known finding C05-KF5); str universe = Unicode scalar strings; repr/str of dates/paths passed in; correspondence is sampled",
    technique="Lean 4 proof (mutual structural induction, factorisation through a canonical form) + byte-exact differential correspondence with dds.fun_args.dds_hash"),
 "C13": dict(
    text="Kernel-checked theorems over the Lean model of get_arg_ctx / get_arg_ctx_ast / _build_return_sig for ALL parameter lists, spellings and values: the argument context is a function of the binding only (spelling_invariant), a call seen in source with literal arguments gets the context of the direct call (source_eq_direct), equal contexts imply equal bindings up to the C05 canonical form (binding_injective), and the argument hashes are recoverable from the signature (sig_injective, through injectivity of the XOR-set algebra). Byte-exact correspondence of both routes and of the end-to-end signature of kept leaf functions; implementation-only oracle over all spellings x both routes.",
    note="plain (positional-or-keyword) parameters only; literals = ast.Constant; SHA-256 idealisation; C05 known collision families apply to argument values; correspondence is sampled",
    technique="Lean 4 proof (induction over parameter lists, permutation/injectivity lemmas of the symbolic XOR algebra) + byte-exact differential correspondence with dds.fun_args and end-to-end signatures"),
 "C14": dict(
    text="Kernel-checked theorem prefix_iff over the Lean model of is_authorized_path: a canonical path is authorised iff one of its prefixes is an accepted package, for every accepted set and every depth (plus monotonicity, sub-module inheritance, irrelevance of unrelated packages). Correspondence on all (depth 1..6) x (prefix depth) x (0..39 other packages); end-to-end implementation oracle: accepted edits change the signature, non-accepted edits do not, a non-accepted data function is refused with an error naming the module and is not executed.",
    note="only the matching function is modelled; Python name resolution (ObjectRetrieval) and the refusal path are exercised end to end on the real code, not proved; correspondence is sampled",
    technique="Lean 4 proof (decision logic stated outright) + differential correspondence + end-to-end oracle on generated packages"),
 "C11": dict(
    text="Kernel-checked theorem overlap_iff over the Lean model of non_terminal_leaves: for every list of well-formed kept paths in every order, something is reported iff one path is a strict segment-wise prefix of another (order_irrelevant as corollary). Exact-result correspondence on thousands of path lists. Cycle, nested-eval and no-effect clauses are decided end to end on the real code (programs: path sets x orders x placements; cycles of length 1..4 through call/keep/reference/method edges; nested eval at depth 1..4): error code, empty execution log, store unchanged.",
    note="proof covers the overlap clause; the cycle / nested-eval / no-effect clauses are checked by an implementation oracle over generated programs until the analysis pass is in the Lean model (partial); root path '/' excluded; correspondence sampled",
    technique="Lean 4 proof (induction on recursion depth of non_terminal_leaves, prefix characterisation) + differential correspondence + end-to-end oracle on generated programs"),
 "C12": dict(
    text="Kernel-checked refinement theorem: for EVERY wrapped store that behaves like the dictionary specification, every capacity and every operation sequence (absent keys, None blobs, re-stored keys), LRUCacheStore's answers equal the dictionary's (transparent), the wrapper itself refines the dictionary (so wrappers compose with the store refinements of C08), and the cache never exceeds its capacity in any reachable state (bounded); table theorems for set_store(cache_objects). Lock-step correspondence: bare store vs real wrapper vs Lean dictionary vs Lean wrapper, plus cache sizes and live-object counts through weak references.",
    note="values are opaque objects compared by equality; inner stores memory and local in the correspondence; correspondence sampled",
    technique="Lean 4 proof (simulation/refinement with an inductive invariant over operation sequences) + lock-step differential correspondence"),
 "C01": dict(
    text="Executable Lean model of the whole evaluation pipeline (indirect pre-pass, analysis with signature composition, overlap check, evaluation with stores, plain execution as Herbrand terms) reproduces the implementation on every step of generated histories: returned value, error, executed bodies, byte-exact signatures, and the dds-free run of the same files. Kernel-checked so far (stage 1): a kept call serves a blob only under exactly the key fixed by the analysis, a rejected evaluation runs nothing and leaves the store untouched, a root hit runs nothing. The implementation-level oracle (dds value == plain execution of the same files, every step, stores memory/local/local+cache/noop, edits/reverts/restarts/copies) decides the property on the explored histories; sig_sound (signature determines the plain value) is stage 2 of the proof.",
    note="PARTIAL proof: the history theorem C01_memo_correct is not yet proved; what is proved are the operational lemmas it rests on, the argument/signature algebra (C05, C13) and the store refinements (C08, C12). Supported subset as in DESIGN §8 (no classes/lambdas/conditionals around keep in the model). Correspondence and oracle are sampled.",
    technique="Lean 4 model + proved operational lemmas; three-way differential execution (real dds / dds-free run of the same files / Lean model) over seeded edit histories"),
 "C02": dict(
    text="Same model and three-way execution as C01; decided per step: after a step that changes nothing a kept function can observe (identical re-evaluation, restart, revert, unrelated definitions, reordering, non-accepted edits, copy to another accepted module, direct call after dds.eval) no kept body runs; after a single edit a context-free kept node that cannot reach the edit does not run; in general the executed set equals the model's. Kernel-checked (stage 1): the analysis reads the store only through the path table, a hit runs nothing, storing blobs never changes the path table.",
    note="PARTIAL proof: cone_eq_iff_sig_eq and the history theorem are stage 2; the cone of DESIGN §4.1 is used through its context-free part in the implementation oracle and through the model's executed set otherwise. Sampled.",
    technique="Lean 4 model + proved lemmas; differential execution with per-step classification of what changed"),
 "C04": dict(
    text="Kernel-checked: after a commit of a path->key map with distinct paths every committed path resolves to its key (commit_sets), every other path keeps its content (commit_frame), blobs are untouched; lifted to LocalFileStore and the cached store by the C08/C12 refinements. Correspondence: committed path table equals the model's byte for byte after every step. Implementation oracle: after every step, every path kept so far loads (same process, fresh process, raw file under the data directory) the value its latest keep returned.",
    note="the value clause rests on blob closure (stage 2 of C02) - currently decided by the oracle; DBFS part is in C19; sampled",
    technique="Lean 4 proof (frame/update lemmas over the path table, store refinement) + differential histories with load/file/fresh-process observation"),
 "C08": dict(
    text="Kernel-checked refinement: for every operation sequence over a universe of located paths with pairwise different segment lists, LocalFileStore (request level) answers exactly like the dictionary specification = MemoryStore (local_refines), and so does the cache-wrapped local store for every capacity (cached_local_refines, composing C12); loc_injective / loc_contained: a location is the path's own list of non-empty segments, never '.'/'..', so different segment lists never alias and nothing escapes the data directory. Lock-step correspondence on memory/local/local+cache (and DBFS fake when built) incl. reopen, ambiguous names (a, b, ab), spaces, unicode, dots; realpath containment and link-per-path checks on the real tree.",
    note="disk abstracted to the files/links the store creates (request-level atomicity; crashes and interleavings are C06/C07); a path and its extension are not both committed (C11); codecs abstracted to an injective encoding; sampled correspondence",
    technique="Lean 4 proof (simulation relation LocalSt ~ Dict, composition with the LRU simulation) + lock-step differential correspondence"),
 "C03": dict(
    text="Byte-exact correspondence: the path->signature map of the real analysis equals the interpretation of the Lean model's symbolic signatures for every program, in every environment variant {PYTHONHASHSEED 0/1/random, cwd, package moved on disk, store memory/local/noop/cache, extra_debug on/off, graph export on, fresh process vs after earlier evaluations and redefinitions in the same process}; implementation and model both reproduce a pinned corpus of 12 programs (corpus/c03). Kernel-checked: the analysis does not depend on stages/debug/export flags (flags_irrelevant), depends on the store only through the committed keys of loaded-not-produced paths (store_irrelevant, history_irrelevant).",
    note="hash seed / cwd / on-disk location have no counterpart in the model: decided by the byte-exact correspondence only (partial); process history is a theorem only because the model has no process state - the correspondence runs every program after earlier evaluations to check the code has none either; pinned corpus is a regression check",
    technique="Lean 4 model with byte-exact interpretation (real SHA-256) + proved independence lemmas; differential runs in subprocesses over environment variants; pinned corpus"),
 "C10": dict(
    text="Kernel-checked for every world, store state and request: an evaluation that ends with any error leaves the path table exactly as it was (failure_commits_nothing, via the frame lemma runFn_paths: running user code never writes the path table), the error that comes out is the one raised (failure_propagates), a kept call whose function fails stores nothing under its key (failing_call_not_stored). Correspondence + oracle: every function of generated pipelines made the failing one x 5 exception classes incl. BaseException subclasses: identity of the propagated exception object, no blob under the signatures of the failing function and of the functions waiting for it, no commit, context idle, repaired pipeline evaluates to plain execution re-using completed sub-results.",
    note="'behaves as if the failed evaluation had not happened' for later evaluations rests on the C01 store invariant (stage 2) and is decided by the oracle here; sampled",
    technique="Lean 4 proof (frame lemma by induction over the run) + fault injection at every function with differential comparison"),
 "C15": dict(
    text="Kernel-checked for every world, store and request: without the eval stage nothing runs, nothing is stored or committed (analysis_only); without path_commit every path is as it was (no_commit); the signatures do not depend on the stage list or flags (sigs_stage_independent); _parse_stages accepts exactly prefixes of the stage order (parse_prefix); the stage order is re-read from the enum in the code on every run (stage_table over Generated/Facts.lean). Correspondence + oracle over generated pipelines x every prefix x spellings (lower/upper/mixed case, enum members) x stores, interleaved with full runs; invalid lists refused.",
    note="dds_stages exists on dds.eval only; 'a later full evaluation returns the same values' is decided by the oracle (value == plain execution after restricted runs); sampled",
    technique="Lean 4 proof (case analysis of evalStep + frame lemma) + facts table regenerated from the code + differential runs"),
 "C09": dict(
    text="Model of loads in both analysis passes, the load-order check and run-time resolution, agreeing with the implementation on all 32 combinations placement {root, helper, kept function, data function} x producer {data function, keep} x order {before, after, earlier evaluation, never}, each with re-evaluation, producer edit and unrelated edit. Kernel-checked (stage 1): an ill-ordered evaluation returns the DDS error, runs nothing and leaves the store untouched (order_rejected); inside an evaluation a load of a path kept by this evaluation reads the blob under this evaluation's key, other paths resolve through the committed table (load_uses_own_key / load_uses_committed_key); a loaded path that does not resolve fails the analysis (load_must_resolve). Implementation oracle: loaded and returned values equal the dds-free run, kept readers re-execute iff the producer's result changed.",
    note="PARTIAL proof: reader_sig_tracks_producer as an iff needs the injectivity of signature composition (stage 2); the exhaustive combination matrix is decided by correspondence + oracle",
    technique="Lean 4 model + proved lemmas; exhaustive directed matrix of load placements/orders with three-way differential execution"),
 "C17": dict(
    text="Kernel-checked over the Lean model of CodecRegistry: a blob written with codec c is read back with c after ANY sequence of add_codec / add_file_codec registrations that does not bind c's reference to another codec (same_codec); add_file_codec never re-binds a reference (file_codecs_never_rebind); the string codec stores the UTF-8 text and is injective (text_verbatim); table theorems over Generated/Facts.lean re-read from the code on every run: which codec writes each result type (default_registry), every reference bound to a codec of its kind (reference_kinds). Correspondence: seeded registration sequences vs the real CodecRegistry. Oracle: every storable result type (empty/non-ASCII/1 MB text and bytes, None, objects, pandas frame, user type with user codec) round-trips through the local store in the same process, after re-prioritising registrations, and in a fresh process; blob and data-directory file are verbatim for str/bytes.",
    note="pickle / parquet byte formats are trusted (exercised); a user codec must be registered in the reading process; sampled correspondence",
    technique="Lean 4 proof (invariant over registration sequences) + facts tables regenerated from the code and proved by kernel evaluation + differential registry runs and end-to-end round trips"),
 "C18": dict(
    text="The Lean graphOf is the specification of the dependency graph (nodes = kept paths + paths loaded by kept functions; solid u->v iff v's function reaches the keep of u without crossing a kept function; dashed iff it loads u). Kernel-checked: export does not change result, store or signatures (export_no_effect); every kept path is a node (nodes_complete); the solid edges into a kept call are exactly its visible kept sub-nodes (solid_sources_are_heads). _plotting._structure and the exported DOT file are compared with graphOf and with an independent recomputation from the abstract program on every generated pipeline (nodes, solid, dashed exactly; dotted edges constrained; acyclicity checked), with and without export.",
    note="PARTIAL: acyclicity and the exact edge characterisation of _structure itself are decided by the comparison, not proved; the specification, not the code, is what the theorems are about; pipelines with two paths under one signature are outside (DESIGN §6 #18)",
    technique="Lean 4 specification + structural induction lemmas; differential comparison of _structure / exported DOT against the specification"),
 "C19": dict(
    text="Kernel-checked over the request-level Lean model of DBFSStore for every state and path->key map: 'none' changes nothing under the data directory (commit_none); 'links_only' updates exactly the redirect records (commit_links_only); 'full' succeeds when the blobs exist, records every path and maintains the invariant that every recorded path has a byte-identical copy of its blob (commit_full); a committed path resolves (committed_path_resolves). Tie B, re-proved from the code on every run: the three documented commit-type spellings are accepted with their documented meaning (documented_names_accepted), every reference of the DBFS registry incl. legacy dbfs.* is bound to a codec of its kind (legacy_alias_kind). Correspondence + oracle against an in-process fake of dbutils.fs: operation sequences x commit types (answers, copies, records), str/bytes/object results, legacy references decode to the written value, load works iff the record exists.",
    note="the real DBFS is out of reach (fake dbutils over a local directory, trusted); one commit type per store lifetime; sampled correspondence",
    technique="Lean 4 proof (induction over the committed map with an inductive invariant) + facts tables regenerated from the code + differential runs against a fake dbutils"),
}
NOT_YET = "check not built yet in this round (work in progress, see DESIGN.md §10)"

def main():
    checks = []
    for pid in ALL:
        if pid in CHECKS:
            c = CHECKS[pid]
            checks.append({
                "property_id": pid,
                "quick_cmd": "./check %s --tier quick" % pid,
                "thorough_cmd": "./check %s --tier thorough" % pid,
                "evidence_file": "evidence/%s.json" % pid,
                "replay_cmd_template": "./check %s --replay {path}" % pid,
                "engine": "lean-model+correspondence",
                "level_claimed": {"category": "proof", "text": c["text"], "design_ref": "DESIGN.md §5 " + pid},
                "level_note": c["note"],
                "technique": c["technique"],
            })
    na = [{"property_id": p, "reason": NOT_YET} for p in ALL if p not in CHECKS]
    m = {
        "version": 1,
        "setup_cmd": "cd lean && lake build",
        "hooks": {"guard": "DDS_PY_VERIF", "enable": "no source hooks are needed: checks import /repo in-process and observe it from outside (wrapping stores, os-level interposition); DDS_PY_VERIF=1 is set by the harness for completeness",
                  "baseline_off_cmd": "tools/baseline.sh", "source_commits": [], "add_only": True},
        "engines": [{"name": "lean-model+correspondence", "path": "lean/ + harness/ + check",
                     "serves_properties": sorted(CHECKS), "kind_free_text": "hand-written Lean 4 model with kernel-checked theorems (lean/DdsModel, lean/DdsProofs), compiled model driver (lean/Driver.lean), Python differential harness against /repo (harness/), facts regenerated from the imported code (lean/Generated/Facts.lean)"}],
        "checks": checks,
        "not_applicable": na,
        "notes": "Every check: regenerate Facts.lean from /repo, lake build, axiom audit, correspondence, failing-input search (DESIGN.md §2.2). Known findings: known_findings.json.",
    }
    json.dump(m, open(os.path.join(ROOT, "MANIFEST.json"), "w"), indent=1)

if __name__ == "__main__":
    main()
