#!/usr/bin/env python3
"""Writes the prompts given to the independent sub-agents of a mutation round (one per property):
tools/gen_mutation_prompts.py <out-dir> <worktree-root>   (the agents see the property text only, nothing of /verif)"""
import glob
import json
import os
import sys

out, root = sys.argv[1], sys.argv[2]
here = os.path.dirname(os.path.dirname(os.path.abspath(__file__)))
props = [json.loads(l) for l in open(os.path.join(here, "properties.jsonl")) if l.strip()]
earlier = {}
for mp in sorted(glob.glob(os.path.join(here, "seeded", "*", "meta.json"))):
    m = json.load(open(mp))
    txt = (m.get("breaks") or m.get("summary") or "").strip().replace("\n", " ")
    if txt:
        earlier.setdefault(m["property"], []).append(txt[:220])
T = open(os.path.join(here, "tools", "mutation_prompt.txt")).read()
for p in props:
    pid = p["id"]
    wt = os.path.join(root, pid)
    ideas = "\n".join("  - " + t for t in earlier.get(pid, [])) or "  (none)"
    txt = (T.replace("@WT@", wt).replace("@ID@", pid).replace("@TITLE@", p["title"]).replace("@STATEMENT@", p["statement"])
           .replace("@QUANT@", p["quantifier"]["text"]).replace("@ANCHORS@", json.dumps(p["anchors"]["files"])).replace("@IDEAS@", ideas))
    open(os.path.join(out, pid + ".txt"), "w").write(txt)
print("wrote", len(props), "prompts to", out)
