#!/bin/bash
# usage: tools/sweep_clean.sh "<seeds>" [tier]   every check on the unchanged tree, 6 at a time; prints only the runs that need
# attention (a VIOLATION line, an infrastructure failure, a non-zero exit, disagreements) and a count at the end
cd "$(dirname "$0")/.."
OUT=$(mktemp)
SEEDS=${1:-"1 2 3"}; TIER=${2:-quick}
one() { s=$1; c=$2; out=$(VERIF_SEED=$s ./check $c --tier $3 2>&1); rc=$?; last=$(echo "$out" | grep -v "^KNOWN" | tail -1)
  if [ $rc -ne 0 ] || echo "$out" | grep -q "^VIOLATION\|INFRASTRUCTURE" || ! echo "$last" | grep -q "disagreements 0, violations 0 new"; then echo "ATTENTION rc=$rc $last"; echo "$out" | grep "^VIOLATION\|INFRA" | head -3; else echo "ok $c seed=$s"; fi; }
export -f one
for s in $SEEDS; do for c in C01 C02 C03 C04 C05 C06 C07 C08 C09 C10 C11 C12 C13 C14 C15 C16 C17 C18 C19; do echo "$s $c $TIER"; done; done | xargs -P 6 -L 1 bash -c 'one $0 $1 $2' | sort | uniq -c | sort -rn > $OUT; grep -v " ok " $OUT; echo "sweep done: $(grep -c " ok " $OUT) runs ok, $(grep -c ATTENTION $OUT) need attention"
rm -f $OUT
