#!/bin/bash
# usage: tools/try_seeded.sh <ID> <name> [extra check ids...]
# confirms an independently written breaking change in its scratch worktree /tmp/mut/<ID>, stores it under
# seeded/<name>/, then runs our check(s) against /repo with the change applied and restores /repo.
set -u
ID=$1; NAME=$2; shift 2
WT=${MUTROOT:-/tmp/mut}/$ID
OUT=/verif/seeded/$NAME
mkdir -p $OUT
cd $WT || exit 2
git diff -- dds > $OUT/patch.diff
cp OUT/demo.py $OUT/demo.py 2>/dev/null; cp OUT/meta.json $OUT/agent_meta.json 2>/dev/null
echo "== tests with the change (in the scratch worktree)"
T=$(/venv/bin/python -m pytest -q -p no:cacheprovider --timeout=900 dds_tests 2>&1 | tail -1); echo "$T"
echo "== demo with the change"; /venv/bin/python OUT/demo.py > $OUT/demo_with.log 2>&1; DW=$?; echo "exit $DW"
git apply -R $OUT/patch.diff; echo "== demo without the change"; /venv/bin/python OUT/demo.py > $OUT/demo_without.log 2>&1; DWO=$?; echo "exit $DWO"; git apply $OUT/patch.diff
cd /verif
git -C ${MUTREPO:-/tmp/mutrepo} checkout -q -- . ; git -C ${MUTREPO:-/tmp/mutrepo} checkout -q --detach $(git -C /repo rev-parse HEAD) ; git -C ${MUTREPO:-/tmp/mutrepo} apply $OUT/patch.diff || { echo "PATCH DOES NOT APPLY"; exit 2; }
RES=""
for C in $ID "$@"; do
  echo "== ./check $C with the change applied to /repo"
  DDS_REPO=${MUTREPO:-/tmp/mutrepo} ./check $C 2>&1 | grep "VIOLATION\|^$C \|INFRA" | tee -a $OUT/check_$C.log
  RES="$RES $C:$(grep -c VIOLATION $OUT/check_$C.log)"
done
git -C ${MUTREPO:-/tmp/mutrepo} checkout -q -- .
echo "tests: $T | demo with: $DW without: $DWO | detected:$RES"
python3 - "$ID" "$NAME" "$T" "$DW" "$DWO" "$RES" <<'PY'
import json,sys,os
ID,NAME,T,DW,DWO,RES=sys.argv[1:7]
d='/verif/seeded/'+NAME
am={}
try: am=json.load(open(d+'/agent_meta.json'))
except Exception: pass
meta={"property":ID,"breaks":am.get("summary"),"needs":am.get("needs"),"files":am.get("files"),
      "confirmed":{"tests_with_change":T,"demo_exit_with_change":int(DW),"demo_exit_without_change":int(DWO)},
      "ran":"tools/try_seeded.sh %s %s: patch applied to /repo, ./check run, /repo restored"%(ID,NAME),
      "detected_by":RES.strip()}
json.dump(meta,open(d+'/meta.json','w'),indent=1)
PY
