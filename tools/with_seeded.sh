#!/bin/bash
# usage: tools/with_seeded.sh <seeded-name> <command...>   applies seeded/<name>/patch.diff to /repo, runs the command, restores /repo
N=$1; shift
git -C /repo apply /verif/seeded/$N/patch.diff || { echo "PATCH DOES NOT APPLY"; exit 2; }
"$@"
RC=$?
git -C /repo checkout -- .
exit $RC
