#!/bin/bash
# usage: tools/with_seeded_scratch.sh <seeded-name|clean> <command...>  runs the command with DDS_REPO pointing to a scratch worktree
# of /repo (/tmp/mutrepo) that has seeded/<name>/patch.diff applied (or nothing, for "clean"); /repo itself is not touched
N=$1; shift
[ -d /tmp/mutrepo ] || git -C /repo worktree add -q --detach /tmp/mutrepo HEAD
git -C /tmp/mutrepo reset -q --hard 2>/dev/null; git -C /tmp/mutrepo checkout -q --detach $(git -C /repo rev-parse HEAD) 2>/dev/null
git -C /tmp/mutrepo checkout -q -- .
if [ "$N" != "clean" ]; then git -C /tmp/mutrepo apply /verif/seeded/$N/patch.diff || { echo "PATCH DOES NOT APPLY"; exit 2; }; fi
DDS_REPO=/tmp/mutrepo "$@"
RC=$?
git -C /tmp/mutrepo checkout -q -- .
exit $RC
